import Evenio.Model.Script
/-! The executable world model: `world.rs`, the graph half of `archetype.rs`, `handler.rs` registries,
    `entity.rs`, `fetch.rs` caches and the event loop.  Every `unwrap_unchecked` / `get_unchecked` /
    `assume_unchecked` is a lookup that raises `Err.ub site` when it would fail, every `debug_assert` raises
    `Err.assert site` when `debug` is on, every documented panic raises `Err.panic class`.
    Core Lean only; the driver executes exactly these definitions. -/
namespace Evenio

inductive Err
  | ub (site : String)
  | assert (site : String)
  | panic (cls : String)
deriving Repr, Inhabited

structure CompInfo where
  ty : Nat
  id : Key
  insEvents : List Key := []     -- `insert_events : BTreeSet<TargetedEventId>`
  remEvents : List Key := []
  memberOf : List Nat := []      -- `member_of : IndexSet<ArchetypeIdx>` (insertion order, `swap_remove`)
deriving Repr, Inhabited

structure EvInfo where
  ty : EvTy
  id : Key
  kind : EvKind
  needsDrop : Bool
deriving Repr, Inhabited

structure Payload where
  serial : Nat := 0
  ent : Key := Key.NULL
  cell : Cell := ⟨0, 0⟩
  id : Key := Key.NULL
  arena : Option (Nat × Nat × Nat) := none   -- (arena epoch, allocation no., length) for `G3`
deriving Repr, Inhabited

structure QItem where
  ty : EvTy
  idx : Nat
  target : Key := Key.NULL
  pay : Payload := {}
deriving Repr, Inhabited

inductive PKind | recv | fetch | single | trySingle | snd | ents
deriving Repr, DecidableEq, Inhabited

structure Param where
  kind : PKind
  q : Query := .unit                       -- resolved to component indices
  hasQ : Bool := false
  cache : SparseMap (AS × Nat) := {}       -- `FetcherState.map`: arch index ↦ (arch state, buffer epoch)
deriving Repr, Inhabited

structure HInfo where
  name : String
  key : Key
  order : Nat
  tid : Option Nat
  recv : EvTy
  recvIdx : Nat
  recvKey : Key
  recvMut : Bool
  filter : CA
  sentG : List Nat
  sentT : List Nat
  sends : List (EvTy × Nat)
  compAccess : CA
  archFilter : CA
  referenced : List Nat
  prio : Priority
  params : List Param
  body : List Act
deriving Repr, Inhabited

/-- `HandlerConfig` -/
structure Config where
  prio : Priority := .medium
  recvEv : Option (Option (EvTy × Key)) := none      -- `None` | `Ok(e)` (`some (some e)`) | `Invalid` (`some none`)
  recvAccess : Option Access := some .none            -- `none` = `Invalid`
  recvMut : Bool := false
  filter : CA := CA.ff
  filterSet : Bool := false
  sentG : List Nat := []
  sentT : List Nat := []
  sends : List (EvTy × Nat) := []
  accesses : List CA := []
  referenced : List Nat := []
deriving Repr, Inhabited

structure World where
  debug : Bool := true
  entities : SlotMap Loc := {}
  resIndex : Nat := 0
  resCount : Nat := 0
  comps : SlotMap CompInfo := {}
  gevs : SlotMap EvInfo := {}
  tevs : SlotMap EvInfo := {}
  handlers : SlotMap HInfo := {}
  byGlobal : List (HandlerList Key) := []
  insertCounter : Nat := 0
  byInsertOrder : List Key := []
  archs : Slab Arch := { entries := [.occ { index := 0, comps := [], cols := [], ids := [] }], next := 1 }
  queue : List QItem := []
  inflightOwned : Bool := false          -- `EventDropper.ownership_flag` of the event being delivered
  arenaEpoch : Nat := 0
  arenaCount : Nat := 0
  epochCtr : Nat := 1
  -- bookkeeping shared with the scripts (mirrored by the harness)
  ords : Array Key := #[]
  nextESerial : Nat := 1
  nextCSerial : Nat := 1
  budget : Nat := 0
  out : Array String := #[]
  edrops : List Nat := []
  cdrops : List (Nat × Nat) := []         -- (component type, serial)
  removedIds : List (Char × Key) := []    -- ids of removed components / events / handlers
deriving Inhabited

abbrev M := ExceptT Err (StateM World)

def logT (s : String) : M Unit := modify fun w => { w with out := w.out.push s }
def ubErr {α : Type} (site : String) : M α := throw (.ub site)
def dbgAssert (c : Bool) (site : String) : M Unit := do
  if (← get).debug && !c then throw (.assert site)

def sortedInsert (l : List Nat) (x : Nat) : List Nat := insertSorted l x

/-! ### rendering -/

def World.ordOf (w : World) (k : Key) : String :=
  if k == Key.NULL then "null" else
  match w.ords.toList.idxOf? k with
  | some n => s!"#{n}"
  | none => s!"?{k.idx}v{k.gen}"

def World.compTy (w : World) (idx : Nat) : Nat :=
  match w.comps.getByIndex idx with
  | some (_, ci) => ci.ty
  | none => 999

def World.showVal (w : World) (c v : Nat) : Nat := if compSized (w.compTy c) then v else 0

mutual
def Item.render (w : World) : Item → String
  | .r c v => s!"r{w.compTy c}={w.showVal c v}"
  | .m c v => s!"m{w.compTy c}={w.showVal c v}"
  | .eid i g => w.ordOf ⟨i, g⟩
  | .triv => "_"
  | .flag b => if b then "H1" else "H0"
  | .snoc t i => s!"({Item.renderFlat w t}{Item.render w i},)"
  | .some i => s!"S({Item.render w i})"
  | .none => "N"
  | .left i => s!"L({Item.render w i})"
  | .right i => s!"R({Item.render w i})"
  | .both i j => s!"B({Item.render w i}|{Item.render w j})"
/-- the fields of a (left-nested) tuple item, each followed by a comma -/
def Item.renderFlat (w : World) : Item → String
  | .snoc t i => s!"{Item.renderFlat w t}{Item.render w i},"
  | .triv => ""
  | i => s!"{Item.render w i},"
end

def renderCell (k : Nat) (c : Cell) : String :=
  let v := if compSized k then c.v else 0
  if k == 1 || k == 4 then s!"{v}/s{c.ser}" else s!"{v}"

def QItem.render (w : World) (it : QItem) : String :=
  match it.ty with
  | .g n => s!"G{n}(s{it.pay.serial})"
  | .t n => s!"T{n}(s{it.pay.serial})@{w.ordOf it.target}"
  | .spawn => s!"Spawn({w.ordOf it.pay.ent})"
  | .despawn => s!"Despawn@{w.ordOf it.target}"
  | .ins k => s!"InsK{k}({renderCell k it.pay.cell})@{w.ordOf it.target}"
  | .rem k => s!"RemK{k}@{w.ordOf it.target}"
  | ty => s!"{ty.render}({it.pay.id.render})"

/-! ### destructors (ledger) -/

def dropCell (ty : Nat) (c : Cell) : M Unit :=
  if compNeedsDrop ty then modify fun w => { w with cdrops := (ty, c.ser) :: w.cdrops } else pure ()

def dropCellIdx (idx : Nat) (c : Cell) : M Unit := do
  dropCell ((← get).compTy idx) c

/-- run an event's drop function -/
def dropEvent (it : QItem) : M Unit :=
  match it.ty with
  | .g _ | .t _ => modify fun w => { w with edrops := it.pay.serial :: w.edrops }
  | .ins k => dropCell k it.pay.cell
  | _ => pure ()

/-! ### registries -/

def World.compIdxOfTy (w : World) (ty : Nat) : Option (Key × CompInfo) :=
  w.comps.toList.find? fun (_, ci) => ci.ty == ty

def World.gevOfTy (w : World) (ty : EvTy) : Option (Key × EvInfo) :=
  w.gevs.toList.find? fun (_, ei) => ei.ty == ty
def World.tevOfTy (w : World) (ty : EvTy) : Option (Key × EvInfo) :=
  w.tevs.toList.find? fun (_, ei) => ei.ty == ty

def listResize {α : Type} (l : List α) (n : Nat) (d : α) : List α :=
  if l.length < n then l ++ List.replicate (n - l.length) d else l

/-! ### fetcher caches (`FetcherState::{refresh,remove}_archetype`) -/

def Arch.S (a : Arch) : Nat → Bool := fun c => a.comps.contains c

def Param.refreshArch (p : Param) (a : Arch) : Param :=
  if !p.hasQ then p else
  match p.q.archState a.S with
  | some st => { p with cache := p.cache.insert a.index (st, a.epoch) }
  | none => p

def Param.removeArch (p : Param) (a : Arch) : Param :=
  if !p.hasQ then p else { p with cache := p.cache.remove a.index }

/-- `Handler::refresh_archetype` through a handler pointer -/
def handlerRefresh (hk : Key) (a : Arch) : M Unit := do
  let w ← get
  match w.handlers.get hk with
  | none => ubErr "handler-ptr:refresh"
  | some h =>
    dbgAssert (a.ids.length != 0) "fetch.rs:refresh_archetype:empty"
    set { w with handlers := w.handlers.set hk { h with params := h.params.map (fun p => Param.refreshArch p a) } }

def handlerRemoveArch (hk : Key) (a : Arch) : M Unit := do
  let w ← get
  match w.handlers.get hk with
  | none => ubErr "handler-ptr:remove_archetype"
  | some h =>
    set { w with handlers := w.handlers.set hk { h with params := h.params.map (fun p => Param.removeArch p a) } }

def getArch (i : Nat) (site : String) : M Arch := do
  match (← get).archs.get i with
  | some a => pure a
  | none => ubErr site

def setArch (a : Arch) : M Unit := modify fun w => { w with archs := w.archs.set a.index a }

def freshEpoch : M Nat := modifyGet fun w => (w.epochCtr, { w with epochCtr := w.epochCtr + 1 })

/-! ### `Archetype::register_handler` -/

def Arch.registerHandler (a : Arch) (h : HInfo) : M Arch := do
  let mut a := a
  if h.archFilter.matches a.S then
    if a.ids.length > 0 then
      handlerRefresh h.key a
    a := { a with refresh := if a.refresh.contains h.key then a.refresh else a.refresh ++ [h.key] }
  if h.recv.targeted then
    if h.filter.matches a.S then
      match a.listeners.get h.recvIdx with
      | some l => a := { a with listeners := a.listeners.insert h.recvIdx (l.insert h.key h.prio) }
      | none => a := { a with listeners := a.listeners.insert h.recvIdx ((({} : HandlerList Key)).insert h.key h.prio) }
  pure a

/-! ### entity bookkeeping -/

/-- `Archetypes::spawn` -/
def archSpawn (id : Key) : M Loc := do
  let empty ← getArch 0 "archetype.rs:empty_mut"
  let ep ← freshEpoch
  let (empty, realloc) := empty.reserveOne ep
  let row := empty.ids.length
  let empty := { empty with ids := empty.ids ++ [id] }
  setArch empty
  if empty.ids.length == 1 || realloc then
    for hk in empty.refresh do
      handlerRefresh hk empty
  pure ⟨0, row⟩

/-- `ReservedEntities::reserve` -/
def reserve : M Key := do
  let w ← get
  match w.entities.nextKey w.resIndex with
  | .key k i' =>
    set { w with resIndex := i', resCount := w.resCount + 1 }
    pure k
  | .exhausted => throw (.panic "capacity")
  | .badState => throw (.panic "internal:incorrect state for next key iter")

/-- `ReservedEntities::spawn_all` -/
def spawnAll : M Unit := do
  let n := (← get).resCount
  for _ in [0:n] do
    let w ← get
    -- `Entities::add_with(f)`: the key is chosen by the slot map, `f` spawns into the empty archetype
    match w.entities.insertWith (fun _ => Loc.NULL) with
    | none => throw (.panic "capacity")
    | some (k, ents) =>
      set { w with entities := ents }
      let loc ← archSpawn k
      modify fun w => { w with entities := w.entities.set k loc }
  modify fun w => { w with resIndex := w.entities.nextKeyIndex, resCount := 0 }

/-- `ReservedEntities::refresh` -/
def resRefresh : M Unit := do
  dbgAssert ((← get).resCount == 0) "entity.rs:refresh:count"
  modify fun w => { w with resIndex := w.entities.nextKeyIndex }

def setLoc (id : Key) (site : String) (f : Loc → Loc) : M Unit := do
  let w ← get
  match w.entities.get id with
  | some l => set { w with entities := w.entities.set id (f l) }
  | none => ubErr site

/-! ### archetype graph -/

def World.archByComps (w : World) (cs : List Nat) : Option Nat :=
  (w.archs.toList.find? fun (_, a) => a.comps == cs).map (·.1)

/-- `Archetype::new` + registration of every handler + insertion into the slab -/
def newArch (cs : List Nat) (edgeIns : Option (Nat × Nat)) (edgeRem : Option (Nat × Nat)) : M Nat := do
  let idx := (← get).archs.vacantKey
  -- `info.member_of.insert(arch_idx)` for every component
  for c in cs do
    let w ← get
    match w.comps.getByIndex c with
    | none => ubErr "archetype.rs:Archetype::new:component"
    | some (k, ci) =>
      set { w with comps := w.comps.set k { ci with memberOf := if ci.memberOf.contains idx then ci.memberOf else ci.memberOf ++ [idx] } }
  let mut a : Arch := { index := idx, comps := cs, cols := cs.map fun _ => [], ids := [] }
  match edgeIns with | some (c, d) => a := { a with insEdges := edgeInsert a.insEdges c d } | none => pure ()
  match edgeRem with | some (c, d) => a := { a with remEdges := edgeInsert a.remEdges c d } | none => pure ()
  for hk in (← get).byInsertOrder do
    match (← get).handlers.get hk with
    | none => ubErr "handler-ptr:by_insert_order"
    | some h => a ← a.registerHandler h
  modify fun w => { w with archs := w.archs.insert a }
  pure idx

/-- `traverse_insert` -/
def traverseInsert (src : Nat) (c : Nat) : M Nat := do
  dbgAssert (((← get).comps.getByIndex c).isSome) "archetype.rs:traverse_insert:component"
  let sa ← getArch src "archetype.rs:traverse_insert:src"
  match edgeGet sa.insEdges c with
  | some d => pure d
  | none =>
    if sa.comps.contains c then pure src else
    let cs := insertSorted sa.comps c
    match (← get).archByComps cs with
    | some d =>
      setArch { sa with insEdges := edgeInsert sa.insEdges c d }
      pure d
    | none =>
      let d ← newArch cs none (some (c, src))
      let sa ← getArch src "archetype.rs:traverse_insert:src2"
      setArch { sa with insEdges := edgeInsert sa.insEdges c d }
      pure d

/-- `traverse_remove` -/
def traverseRemove (src : Nat) (c : Nat) : M Nat := do
  let sa ← getArch src "archetype.rs:traverse_remove:src"
  match edgeGet sa.remEdges c with
  | some d => pure d
  | none =>
    if !sa.comps.contains c then pure src else
    let cs := sa.comps.filter (· != c)
    match (← get).archByComps cs with
    | some d =>
      setArch { sa with remEdges := edgeInsert sa.remEdges c d }
      pure d
    | none =>
      let d ← newArch cs (some (c, src)) none
      let sa ← getArch src "archetype.rs:traverse_remove:src2"
      setArch { sa with remEdges := edgeInsert sa.remEdges c d }
      pure d

/-- `move_entity` -/
def moveEntity (src : Loc) (dst : Nat) (new : List (Nat × Cell)) : M Unit := do
  if src.arch == dst then
    let a ← getArch src.arch "archetype.rs:move_entity:same"
    let mut a := a
    for (c, x) in new do
      match a.colIdx c with
      | none => ubErr "archetype.rs:move_entity:column_of_mut"
      | some i =>
        match a.cols[i]? >>= fun col => assignCol col src.row x with
        | none => ubErr "archetype.rs:assign:oob"
        | some (col', old) =>
          dropCellIdx c old
          a := { a with cols := a.cols.set i col' }
    setArch a
    return
  let sa ← getArch src.arch "archetype.rs:move_entity:get2_mut"
  let da ← getArch dst "archetype.rs:move_entity:get2_mut"
  let dstRow := da.ids.length
  let ep ← freshEpoch
  let (da, realloc) := da.reserveOne ep
  match moveCols src.row sa.comps sa.cols da.comps da.cols new with
  | none => ubErr "archetype.rs:move_entity:merge"
  | some r =>
    for (c, x) in (sa.comps.filter fun c => !da.comps.contains c).zip r.dropped do
      dropCellIdx c x
    match sa.ids[src.row]? with
    | none => throw (.panic "internal:swap_remove index out of bounds")
    | some eid =>
      let sids := SparseMap.swapRemove sa.ids src.row
      let sa := { sa with cols := r.src, ids := sids }
      let da := { da with cols := r.dst, ids := da.ids ++ [eid] }
      setArch sa
      setArch da
      setLoc eid "archetype.rs:move_entity:entities.get_mut" fun _ => ⟨dst, dstRow⟩
      match sids[src.row]? with
      | some swapped => setLoc swapped "archetype.rs:move_entity:swapped" fun l => { l with row := src.row }
      | none => pure ()
      if sids.isEmpty then
        for hk in sa.refresh do handlerRemoveArch hk sa
      if realloc || da.ids.length == 1 then
        for hk in da.refresh do handlerRefresh hk da

/-- `remove_entity` -/
def removeEntity (loc : Loc) : M Unit := do
  let a ← getArch loc.arch "archetype.rs:remove_entity:get_mut"
  let mut cols := []
  for (c, col) in a.comps.zip a.cols do
    match col[loc.row]? with
    | none =>
      dbgAssert false "archetype.rs:swap_remove:oob"
      ubErr "archetype.rs:swap_remove:oob"
    | some x =>
      dropCellIdx c x
      cols := cols ++ [SparseMap.swapRemove col loc.row]
  match a.ids[loc.row]? with
  | none => ubErr "archetype.rs:remove_entity:assume_unchecked"
  | some id =>
    let ids := SparseMap.swapRemove a.ids loc.row
    let a := { a with cols := cols, ids := ids }
    setArch a
    let w ← get
    match w.entities.remove id with
    | none => ubErr "archetype.rs:remove_entity:entities.remove"
    | some (removed, ents) =>
      set { w with entities := ents }
      dbgAssert (removed == loc) "archetype.rs:remove_entity:loc"
      match ids[loc.row]? with
      | some displaced => setLoc displaced "archetype.rs:remove_entity:displaced" fun l => { l with row := loc.row }
      | none => pure ()
      if ids.isEmpty then
        for hk in a.refresh do handlerRemoveArch hk a

/-! ### the event queue -/

def push (it : QItem) : M Unit := modify fun w => { w with queue := w.queue ++ [it] }

def World.resolve (w : World) (self ev : Key) : Tgt → Key
  | .self => self
  | .ev => ev
  | .ord n => (w.ords[n]?).getD Key.NULL
  | .last => if w.ords.size = 0 then Key.NULL else (w.ords[w.ords.size - 1]?).getD Key.NULL
  | .null => Key.NULL

def takeBudget : M Bool := do
  let w ← get
  if w.budget = 0 then pure false else
    set { w with budget := w.budget - 1 }
    pure true

def freshE : M Nat := modifyGet fun w => (w.nextESerial, { w with nextESerial := w.nextESerial + 1 })
def freshC : M Nat := modifyGet fun w => (w.nextCSerial, { w with nextCSerial := w.nextCSerial + 1 })

/-- `Sender::send` / `send_to`: the event value exists before the event-set lookup, so a failed lookup drops it -/
def HInfo.hasSender (h : HInfo) : Bool := h.params.any fun p => p.kind == .snd

def senderPush (h : HInfo) (it : QItem) : M Unit := do
  match h.sends.find? (·.1 == it.ty) with
  | none =>
    dropEvent it
    throw (.panic "noteventset")
  | some (_, idx) => push { it with idx := idx }

/-- all rows a fetcher-like parameter currently yields: `(arch state, archetype, row)`; mirrors `Iter` -/
def paramRows (p : Param) : M (List (AS × Arch × Nat)) := do
  let mut res := []
  let mut first := true
  for (ai, (st, ep)) in p.cache.keys.zip p.cache.values do
    let a ← getArch ai "fetch.rs:iter:archetypes.get"
    if a.ids.length == 0 && !first then ubErr "fetch.rs:iter:assume_nonempty"
    if a.ids.length > 0 && ep != a.epoch then ubErr "fetch.rs:stale-column-pointer"
    first := false
    for row in [0:a.ids.length] do
      res := res ++ [(st, a, row)]
  pure res

def itemAt (st : AS) (a : Arch) (row : Nat) : M Item := do
  match a.ids[row]? with
  | none => ubErr "query.rs:get:row-oob"
  | some id =>
    match st.item (fun c => (a.readCell c row).map (·.v)) (id.idx, id.gen) with
    | some it => pure it
    | none => ubErr "query.rs:get:column"

/-- `FetcherState::get_unchecked` -/
def paramGet (p : Param) (id : Key) : M (Except String Item) := do
  let w ← get
  match w.entities.get id with
  | none => pure (.error "NoSuchEntity")
  | some loc =>
    match p.cache.getChecked loc.arch with
    | none => ubErr "sparse_map.rs:get:dense"
    | some none => pure (.error "QueryDoesNotMatch")
    | some (some (st, ep)) =>
      let a ← getArch loc.arch "fetch.rs:get:arch"
      if ep != a.epoch then ubErr "fetch.rs:stale-column-pointer"
      let it ← itemAt st a loc.row
      pure (.ok it)

def sortStrings (l : List String) : List String := (l.toArray.qsort (· < ·)).toList

/-- mutable references in an arch state, as component indices -/
def AS.mutCols (a : AS) : List Nat := a.refs.filterMap fun (c, m) => if m then some c else none

def bumpCell (ai row c : Nat) : M Unit := do
  let a ← getArch ai "bump:arch"
  match a.colIdx c with
  | none => ubErr "bump:column"
  | some i =>
    match a.cols[i]? with
    | none => ubErr "bump:column"
    | some col =>
      match col[row]? with
      | none => ubErr "bump:row"
      | some x => setArch { a with cols := a.cols.set i (col.set row { x with v := x.v + 1 }) }

def getParam (h : HInfo) (p : Nat) : M Param :=
  match h.params[p]? with
  | some x => pure x
  | none => throw (.panic "script:bad-param")

/-- one scripted action of a running handler. Returns `true` if the event was taken. -/
def runAct (hk : Key) (it : QItem) (loc : Loc) (act : Act) : M Bool := do
  let w ← get
  let some h := w.handlers.get hk | ubErr "handler-ptr:run"
  let tgtOf (t : Tgt) : Key := w.resolve it.target it.pay.ent t
  match act with
  | .send g =>
    if !h.hasSender then pure false else
    if ← takeBudget then
      let s ← freshE
      senderPush h { ty := .g g, idx := 0, pay := { serial := s, ent := it.pay.ent } }
    pure false
  | .sendto t tg =>
    if !h.hasSender then pure false else
    if ← takeBudget then
      let s ← freshE
      senderPush h { ty := .t t, idx := 0, target := tgtOf tg, pay := { serial := s, ent := it.pay.ent } }
    pure false
  | .spawn =>
    if !h.hasSender then pure false else
    if ← takeBudget then
      -- `Sender::spawn` reserves the id before `send(Spawn(id))` looks the event up
      let id ← reserve
      match h.sends.find? (·.1 == EvTy.spawn) with
      | none => throw (.panic "noteventset")
      | some (_, idx) =>
        push { ty := .spawn, idx := idx, pay := { ent := id } }
        modify fun w => { w with ords := w.ords.push id }
        logT s!" spawned {(← get).ordOf id}"
    pure false
  | .despawn tg =>
    if !h.hasSender then pure false else
    if ← takeBudget then senderPush h { ty := .despawn, idx := 0, target := tgtOf tg }
    pure false
  | .ins tg k v =>
    if !h.hasSender then pure false else
    if ← takeBudget then
      let s ← freshC
      senderPush h { ty := .ins k, idx := 0, target := tgtOf tg, pay := { cell := ⟨v, s⟩ } }
    pure false
  | .rem tg k =>
    if !h.hasSender then pure false else
    if ← takeBudget then senderPush h { ty := .rem k, idx := 0, target := tgtOf tg }
    pure false
  | .take =>
    if h.recvMut && !w.inflightOwned then
      logT " took"
      dropEvent it      -- the handler owns the value now and lets it go at once
      modify fun w => { w with inflightOwned := true }
      pure true
    else pure false
  | .panic => throw (.panic "user")
  | .iter p =>
    let pm ← getParam h p
    if pm.kind != .fetch then pure false else
    let rows ← paramRows pm
    let mut items := []
    for (st, a, row) in rows do
      let i ← itemAt st a row
      items := items ++ [i.render (← get)]
    logT s!" it{p} [{";".intercalate (sortStrings items)}] len={items.length}"
    pure false
  | .bump p =>
    let pm ← getParam h p
    if pm.kind != .fetch then pure false else
    let rows ← paramRows pm
    for (st, a, row) in rows do
      for c in st.mutCols do bumpCell a.index row c
    pure false
  | .get p tg =>
    let pm ← getParam h p
    if pm.kind != .fetch then pure false else
    let id := tgtOf tg
    match ← paramGet pm id with
    | .ok i => logT s!" get{p} {w.ordOf id} Ok({i.render (← get)})"
    | .error e => logT s!" get{p} {w.ordOf id} Err({e})"
    pure false
  | .getMany p tgs =>
    let pm ← getParam h p
    if pm.kind != .fetch then pure false else
    let ids := tgs.map tgtOf
    let names := " ".intercalate (ids.map w.ordOf)
    if ids.eraseDups.length != ids.length then
      logT s!" getmany{p} {names} Err(AliasedMutability)"
    else
      let mut res := []
      let mut err := none
      for id in ids do
        if err.isNone then
          match ← paramGet pm id with
          | .ok i => res := res ++ [i.render (← get)]
          | .error e => err := some e
      match err with
      | some e => logT s!" getmany{p} {names} Err({e})"
      | none => logT s!" getmany{p} {names} Ok({";".intercalate res})"
    pure false
  | .single p =>
    let pm ← getParam h p
    if pm.kind != .single && pm.kind != .trySingle then pure false else
    let rows ← paramRows pm
    match rows with
    | [(st, a, row)] => logT s!" single{p} Ok({(← itemAt st a row).render (← get)})"
    | [] => logT s!" single{p} Err(NoMatch)"
    | _ => logT s!" single{p} Err(Many)"
    pure false
  | .recv =>
    match h.params[0]? with
    | some pm =>
      if pm.hasQ then
        match pm.cache.get loc.arch with
        | none => ubErr "fetch.rs:get_by_location_mut"
        | some (st, _) =>
          let a ← getArch loc.arch "recv:arch"
          logT s!" recv {(← itemAt st a loc.row).render (← get)}"
      else logT " recv -"
    | none => pure ()
    pure false
  | .ents =>
    if h.params.any fun p => p.kind == .ents then logT s!" ents {w.entities.len}"
    pure false
  | .alloc n =>
    if !h.hasSender then pure false else
    if ← takeBudget then
      let s ← freshE
      let w ← get
      set { w with arenaCount := w.arenaCount + 1 }
      senderPush h { ty := .g 3, idx := 0, pay := { serial := s, ent := it.pay.ent, arena := some (w.arenaEpoch, w.arenaCount, n) } }
    pure false
  | .fwd =>
    if !h.hasSender then pure false else
    if ← takeBudget then
      let s ← freshE
      senderPush h { ty := .g 3, idx := 0, pay := { serial := s, ent := it.pay.ent, arena := it.pay.arena } }
    pure false

/-- `Handler::run`: parameters are materialised first (`HandlerParam::get`, in order), then the body runs -/
def runHandler (hk : Key) (it : QItem) (loc : Loc) : M Bool := do
  let w ← get
  let some h := w.handlers.get hk | ubErr "handler-ptr:run"
  logT s!"h {h.name} {it.render w}"
  -- arena payloads are read by every receiving handler (C20)
  match it.pay.arena with
  | some (ep, n, len) =>
    if ep != w.arenaEpoch then ubErr "arena:use-after-reset"
    logT s!" arena a{n} len={len} ok"
  | none => pure ()
  let mut first := true
  for pm in h.params do
    match pm.kind with
    | .recv =>
      if pm.hasQ then
        match pm.cache.get loc.arch with
        | none => ubErr "fetch.rs:get_by_location_mut"
        | some (_, ep) =>
          let a ← getArch loc.arch "recv:arch"
          if ep != a.epoch then ubErr "fetch.rs:stale-column-pointer"
    | .single =>
      let rows ← paramRows pm
      if rows.length != 1 then throw (.panic "single")
    | .trySingle => let _ ← paramRows pm
    | _ => pure ()
    first := false
  let mut owned := false
  let mut recvDone := false
  let mut singleDone : List Nat := []
  -- the body keeps running after `take` (the handler owns the event; it may still send, iterate or panic)
  for act in h.body do
    match act with
    | .recv =>
      -- the receiver's query item is moved out when it is first rendered
      if !recvDone then
        recvDone := true
        let r ← runAct hk it loc act
        owned := owned || r
    | .single p =>
      if singleDone.contains p then
        match h.params[p]? with
        | some pm => if pm.kind == .single || pm.kind == .trySingle then logT s!" single{p} gone"
        | none => throw (.panic "script:bad-param")
      else
        singleDone := p :: singleDone
        let r ← runAct hk it loc act
        owned := owned || r
    | _ =>
      let r ← runAct hk it loc act
      owned := owned || r
  pure owned

/-- the unwinding path, second half of `EventDropper::drop`: every queued event is dropped through the drop
    function registered for its type, then the queue is cleared -/
def dropQueued : M Unit := do
  for q in (← get).queue do
    let w ← get
    if q.ty.targeted then
      match w.tevs.getByIndex q.idx with
      | none => ubErr "world.rs:EventDropper:targeted_events.get_by_index"
      | some (_, ei) => if ei.needsDrop then dropEvent q
    else
      match w.gevs.getByIndex q.idx with
      | none => ubErr "world.rs:EventDropper:global_events.get_by_index"
      | some (_, ei) => if ei.needsDrop then dropEvent q
  modify fun w => { w with queue := [] }

/-- One iteration of the `while let Some(item) = self.event_queue.pop()` loop, run with the rest of the queue set
    aside (`flushWith`): whatever the handlers send lands on an empty segment, which is reversed in place once the
    handler loop is over ("Reverse pushed events so they're handled in FIFO order"). -/
def deliverOne (it : QItem) : M Unit := do
  let w ← get
  let (info, hs, loc) ← (do
    if it.ty.targeted then
      let some (_, info) := w.tevs.getByIndex it.idx | ubErr "world.rs:flush:targeted_events.get_by_index"
      match w.entities.get it.target with
      | none => pure (info, none, Loc.NULL)
      | some loc =>
        let a ← getArch loc.arch "world.rs:flush:archetypes.get"
        pure (info, some ((a.listeners.get it.idx).map (·.entries) |>.getD []), loc)
    else
      let some (_, info) := w.gevs.getByIndex it.idx | ubErr "world.rs:flush:global_events.get_by_index"
      let some l := w.byGlobal[it.idx]? | ubErr "world.rs:flush:get_global_list"
      pure (info, some l.entries, Loc.NULL) : M (EvInfo × Option (List Key) × Loc))
  match hs with
  | none =>
    -- the target does not exist: drop the event, skip it
    if info.needsDrop then dropEvent it
  | some hs =>
    let mut owned := false
    modify fun w => { w with inflightOwned := false }
    for hk in hs do
      if !owned then
        let r ← tryCatch (runHandler hk it loc) fun e => do
          -- `EventDropper::drop`, first half: the in-flight event is dropped unless a handler owns it
          -- (`ownership_flag`; a handler may `take` the event and panic afterwards)
          match e with
          | .panic _ => if !(← get).inflightOwned && info.needsDrop then dropEvent it
          | _ => pure ()
          throw e
        owned := r
    modify fun w => { w with queue := w.queue.reverse }
    if owned then return
    match info.kind with
    | .normal => if info.needsDrop then dropEvent it
    | .insert c =>
      dbgAssert (loc != Loc.NULL) "world.rs:flush:insert:location"
      let dst ← traverseInsert loc.arch c
      moveEntity loc dst [(c, it.pay.cell)]
    | .remove c =>
      let dst ← traverseRemove loc.arch c
      moveEntity loc dst []
    | .spawn => spawnAll
    | .despawn =>
      spawnAll
      removeEntity loc
      resRefresh

/-- `flush_event_queue`, generic in the per-event step: pop the top of the stack, run `deliver` on an empty segment,
    put the segment it leaves (already in pop order) on top of the rest. When `deliver` unwinds with a panic, the
    guard drops everything still queued. On return the arena is reset (`self.bump.reset()`). -/
def flushWith (deliver : QItem → M Unit) : Nat → M Unit
  | 0 => throw (.panic "model:fuel")
  | fuel + 1 => do
    let w ← get
    match w.queue.getLast? with
    | none => set { w with arenaEpoch := w.arenaEpoch + 1 }
    | some it =>
      let rest := w.queue.dropLast
      set { w with queue := [] }
      tryCatch (deliver it) fun e => do
        modify fun w => { w with queue := rest ++ w.queue }
        match e with
        | .panic _ => dropQueued
        | _ => pure ()
        throw e
      modify fun w => { w with queue := rest ++ w.queue }
      flushWith deliver fuel

def flush (fuel : Nat) : M Unit := flushWith deliverOne fuel

def FUEL : Nat := 100000

/-! ### registration (`add_*`) -/

def gevNeedsDrop : EvTy → Bool | .g _ => true | _ => false
def gevKind : EvTy → EvKind | .spawn => .spawn | _ => .normal

/-- registers `AddGlobalEvent` itself if needed (its own registration is announced with itself) -/
def ensureAddG : M Key := do
  let w ← get
  match w.gevOfTy .addG with
  | some (k, _) => pure k
  | none =>
    match w.gevs.insertWith fun k => { ty := .addG, id := k, kind := .normal, needsDrop := false } with
    | none => throw (.panic "capacity")
    | some (k, gevs) =>
      set { w with gevs := gevs, byGlobal := listResize w.byGlobal (k.idx + 1) {} }
      push { ty := .addG, idx := k.idx, pay := { id := k } }
      flush FUEL
      pure k

/-- `add_global_event_with_descriptor` (after `E::init`); the recursion through `send(AddGlobalEvent(id))`
    is unfolded: it is at most two levels deep. -/
def addGlobalEvent (ty : EvTy) : M Key := do
  if ty == .addG then ensureAddG else
  let w ← get
  match w.gevOfTy ty with
  | some (k, _) => pure k
  | none =>
    match w.gevs.insertWith fun k => { ty, id := k, kind := gevKind ty, needsDrop := gevNeedsDrop ty } with
    | none => throw (.panic "capacity")
    | some (k, gevs) =>
      set { w with gevs := gevs, byGlobal := listResize w.byGlobal (k.idx + 1) {} }
      let ak ← ensureAddG
      push { ty := .addG, idx := ak.idx, pay := { id := k } }
      flush FUEL
      pure k

/-- `World::send` -/
def sendGlobal (ty : EvTy) (pay : Payload) : M Unit := do
  -- the event value is owned by `send`; if registration unwinds, the value is dropped on the way out
  let k ← tryCatch (addGlobalEvent ty) fun e => do
    dropEvent { ty, idx := 0, pay }
    throw e
  push { ty, idx := k.idx, pay }
  flush FUEL

def addComponent (ty : Nat) : M Key := do
  let w ← get
  match w.compIdxOfTy ty with
  | some (k, _) => pure k
  | none =>
    match w.comps.insertWith fun k => { ty, id := k } with
    | none => throw (.panic "capacity")
    | some (k, comps) =>
      set { w with comps := comps }
      sendGlobal .addC { id := k }
      pure k

/-- `E::init` + `add_targeted_event_with_descriptor` -/
def addTargetedEvent (ty : EvTy) : M Key := do
  -- `EventDescriptor::new::<E>(self)` runs `E::init` first (Insert/Remove register their component)
  let kind ← (match ty with
    | .ins k => do let c ← addComponent k; pure (EvKind.insert c.idx)
    | .rem k => do let c ← addComponent k; pure (EvKind.remove c.idx)
    | .despawn => pure EvKind.despawn
    | _ => pure EvKind.normal : M EvKind)
  let w ← get
  match w.tevOfTy ty with
  | some (k, _) => pure k
  | none =>
    let needsDrop := match ty with | .t _ => true | .ins k => compNeedsDrop k | _ => false
    match w.tevs.insertWith fun k => { ty, id := k, kind, needsDrop } with
    | none => throw (.panic "capacity")
    | some (k, tevs) =>
      set { w with tevs := tevs }
      match kind with
      | .insert c =>
        let w ← get
        match w.comps.getByIndex c with
        | some (ck, ci) => set { w with comps := w.comps.set ck { ci with insEvents := ci.insEvents ++ [k] } }
        | none => pure ()
      | .remove c =>
        let w ← get
        match w.comps.getByIndex c with
        | some (ck, ci) => set { w with comps := w.comps.set ck { ci with remEvents := ci.remEvents ++ [k] } }
        | none => pure ()
      | _ => pure ()
      sendGlobal .addT { id := k }
      pure k

def addEvent (ty : EvTy) : M Key := if ty.targeted then addTargetedEvent ty else addGlobalEvent ty

def sendTargeted (ty : EvTy) (target : Key) (pay : Payload) : M Unit := do
  let k ← tryCatch (addTargetedEvent ty) fun e => do
    dropEvent { ty, idx := 0, pay }
    throw e
  push { ty, idx := k.idx, target, pay }
  flush FUEL

/-! ### handlers -/

/-- `Q::init`: registers the leaf components in visiting order and resolves the query -/
def initQuery (q : Query) (cfg : Config) : M (Query × CA × Config) := do
  let mut cfg := cfg
  for c in q.comps do
    let k ← addComponent c
    cfg := { cfg with referenced := sortedInsert cfg.referenced k.idx }
  let w ← get
  let q' := q.mapComps fun ty => match w.compIdxOfTy ty with | some (k, _) => k.idx | none => U32MAX
  pure (q', q'.init, cfg)

def Config.setRecv (cfg : Config) (ty : EvTy) (k : Key) : Config :=
  { cfg with recvEv := match cfg.recvEv with
      | none => some (some (ty, k))
      | some (some (ty', k')) => if ty' == ty && k' == k then some (some (ty, k)) else some none
      | some none => some none }

def Config.setRecvAccess (cfg : Config) (a : Access) : Config :=
  { cfg with recvAccess := match cfg.recvAccess with
      | some old => a.join old
      | none => none }

def Config.setFilter (cfg : Config) (ca : CA) : Config :=
  { cfg with filter := if cfg.filterSet then cfg.filter.and ca else ca, filterSet := true }

def initParam (ps : PSpec) (cfg : Config) : M (Param × Config) := do
  match ps with
  | .recv ev mutable q =>
    if ev.targeted then
      let k ← addTargetedEvent ev
      let (q', ca, cfg) ← initQuery (q.getD .unit) cfg
      let cfg := (cfg.setRecv ev k).setRecvAccess (if mutable then .readWrite else .read)
      let cfg := { cfg.setFilter ca with accesses := cfg.accesses ++ [ca], recvMut := cfg.recvMut || mutable }
      pure ({ kind := .recv, q := q', hasQ := true }, cfg)
    else
      let k ← addGlobalEvent ev
      let cfg := (cfg.setRecv ev k).setRecvAccess (if mutable then .readWrite else .read)
      pure ({ kind := .recv }, { cfg with recvMut := cfg.recvMut || mutable })
  | .fetch q =>
    let (q', ca, cfg) ← initQuery q cfg
    pure ({ kind := .fetch, q := q', hasQ := true }, { cfg with accesses := cfg.accesses ++ [ca] })
  | .single q =>
    let (q', ca, cfg) ← initQuery q cfg
    pure ({ kind := .single, q := q', hasQ := true }, { cfg with accesses := cfg.accesses ++ [ca] })
  | .trySingle q =>
    let (q', ca, cfg) ← initQuery q cfg
    pure ({ kind := .trySingle, q := q', hasQ := true }, { cfg with accesses := cfg.accesses ++ [ca] })
  | .snd evs =>
    let mut cfg := cfg
    let mut idxs := []
    for ev in evs do
      let k ← addEvent ev
      idxs := idxs ++ [(ev, k.idx)]
    for (ev, i) in idxs do
      if ev.targeted then cfg := { cfg with sentT := sortedInsert cfg.sentT i }
      else cfg := { cfg with sentG := sortedInsert cfg.sentG i }
    pure ({ kind := .snd }, { cfg with sends := cfg.sends ++ idxs })
  | .ents => pure ({ kind := .ents }, cfg)

/-- the repaired conflict check of `try_add_handler`: every parameter is optional -/
def acceptAccess (accesses : List CA) : CA :=
  accesses.foldl (fun acc a => acc.and (CA.tt.or a)) CA.tt

inductive AddResult
  | ok (k : Key)
  | dup (k : Key)
  | err (cls : String)
deriving Repr

/-- `try_add_handler` -/
def addHandler (hs : HSpec) : M AddResult := do
  match hs.tid with
  | some t =>
    match (← get).handlers.toList.find? fun (_, h) => h.tid == some t with
    | some (k, _) => return .dup k
    | none => pure ()
  | none => pure ()
  let mut cfg : Config := {}
  let mut params := []
  for ps in hs.params do
    let (p, cfg') ← initParam ps cfg
    cfg := cfg'
    params := params ++ [p]
  cfg := { cfg with prio := hs.prio }
  match cfg.recvEv with
  | none => return .err "noevent"
  | some none => return .err "multievent"
  | some (some (recvTy, recvKey)) =>
  if cfg.recvAccess.isNone then return .err "evaccess"
  let conj := cfg.accesses.foldl (fun acc a => acc.and a) CA.tt
  let conflicts := (acceptAccess cfg.accesses).conflicts
  if !conflicts.isEmpty then
    let w ← get
    let tys := (conflicts.map w.compTy).toArray.qsort (· < ·) |>.toList
    return .err ("conflict:" ++ ",".intercalate (tys.map fun t => s!"K{t}"))
  let disj := cfg.accesses.foldl (fun acc a => acc.or a) CA.ff
  let w ← get
  let order := w.insertCounter
  let mk (k : Key) : HInfo :=
    { name := hs.name, key := k, order, tid := hs.tid, recv := recvTy, recvIdx := recvKey.idx, recvKey,
      recvMut := cfg.recvMut, filter := cfg.filter, sentG := cfg.sentG, sentT := cfg.sentT, sends := cfg.sends,
      compAccess := conj, archFilter := disj, referenced := cfg.referenced, prio := cfg.prio,
      params, body := hs.body }
  match w.handlers.insertWith mk with
  | none => throw (.panic "capacity")
  | some (k, handlers) =>
    let byGlobal :=
      if recvTy.targeted then w.byGlobal else
        let bg := listResize w.byGlobal (recvKey.idx + 1) {}
        bg.set recvKey.idx (((bg[recvKey.idx]?).getD {}).insert k cfg.prio)
    set { w with handlers, byGlobal, insertCounter := order + 1, byInsertOrder := w.byInsertOrder ++ [k] }
    dbgAssert ((← get).handlers.len == (← get).byInsertOrder.length) "handler.rs:add:len"
    -- `archetypes.register_handler(info)`
    for (i, _) in (← get).archs.toList do
      let a ← getArch i "register_handler:arch"
      let some h := (← get).handlers.get k | ubErr "register_handler:info"
      let a' ← a.registerHandler h
      setArch a'
    sendGlobal .addH { id := k }
    pure (.ok k)

/-- `World::remove_handler` -/
def removeHandler (k : Key) : M Bool := do
  if !(← get).handlers.contains k then return false
  sendGlobal .remH { id := k }
  let w ← get
  match w.handlers.remove k with
  | none => throw (.panic "internal:unwrap on None (remove_handler)")
  | some (h, handlers) =>
    let byGlobal := if h.recv.targeted then w.byGlobal else
      match w.byGlobal[h.recvIdx]? with
      | some l => w.byGlobal.set h.recvIdx (l.remove k)
      | none => w.byGlobal
    set { w with handlers, byGlobal, byInsertOrder := w.byInsertOrder.filter (· != k),
                 removedIds := ('h', k) :: w.removedIds }
    dbgAssert ((← get).handlers.len == (← get).byInsertOrder.length) "handler.rs:remove:len"
    for (i, a) in (← get).archs.toList do
      let mut a := { a with refresh := a.refresh.filter (· != k) }
      if h.recv.targeted then
        match a.listeners.get h.recvIdx with
        | some l => a := { a with listeners := a.listeners.insert h.recvIdx (l.remove k) }
        | none => pure ()
      let _ := i
      setArch a
    pure true

def assertQueueEmpty : M Unit := do
  if !(← get).queue.isEmpty then throw (.panic "internal:assert event_queue.is_empty()")

/-- `remove_global_event` / `remove_targeted_event` -/
def removeEvent (ty : EvTy) (k : Key) : M Bool := do
  assertQueueEmpty
  let w ← get
  if ty.targeted then
    if !w.tevs.contains k then return false
    sendGlobal .remT { id := k }
    let w ← get
    let toRemove := w.byInsertOrder.filter fun hk =>
      match w.handlers.get hk with
      | some h => (h.recv.targeted && h.recvKey == k) || h.sentT.contains k.idx
      | none => false
    for hk in toRemove do let _ ← removeHandler hk
    let w ← get
    match w.tevs.remove k with
    | none => throw (.panic "internal:unwrap on None (remove_targeted_event)")
    | some (info, tevs) =>
      set { w with tevs, removedIds := ('t', k) :: w.removedIds }
      match info.kind with
      | .insert c =>
        let w ← get
        match w.comps.getByIndex c with
        | some (ck, ci) => set { w with comps := w.comps.set ck { ci with insEvents := ci.insEvents.filter (· != k) } }
        | none => pure ()
      | .remove c =>
        let w ← get
        match w.comps.getByIndex c with
        | some (ck, ci) => set { w with comps := w.comps.set ck { ci with remEvents := ci.remEvents.filter (· != k) } }
        | none => pure ()
      | _ => pure ()
      pure true
  else
    if !w.gevs.contains k then return false
    sendGlobal .remG { id := k }
    let w ← get
    let toRemove := w.byInsertOrder.filter fun hk =>
      match w.handlers.get hk with
      | some h => (!h.recv.targeted && h.recvKey == k) || h.sentG.contains k.idx
      | none => false
    for hk in toRemove do let _ ← removeHandler hk
    let w ← get
    match w.gevs.remove k with
    | none => throw (.panic "internal:unwrap on None (remove_global_event)")
    | some (_, gevs) =>
      set { w with gevs, removedIds := ('g', k) :: w.removedIds }
      pure true

/-- `Archetypes::remove_component` (with the F4 repair) -/
def archsRemoveComponent (info : CompInfo) : M Unit := do
  let removed := info.id.idx
  for ai in info.memberOf do
    let w ← get
    match w.archs.remove ai with
    | none => throw (.panic "internal:slab invalid key")
    | some (arch, archs) =>
      set { w with archs }
      for hk in arch.refresh do handlerRemoveArch hk arch
      for c in arch.comps do
        if c != removed then
          let w ← get
          match w.comps.getByIndex c with
          | none => ubErr "archetype.rs:remove_component:components.get_by_index_mut"
          | some (ck, ci) =>
            -- `IndexSet::swap_remove`
            let mo := match ci.memberOf.idxOf? ai with
              | some i => SparseMap.swapRemove ci.memberOf i
              | none => ci.memberOf
            set { w with comps := w.comps.set ck { ci with memberOf := mo } }
      for id in arch.ids do
        modify fun w => match w.entities.remove id with
          | some (_, ents) => { w with entities := ents }
          | none => w
      for (c, other) in arch.insEdges do
        match (← get).archs.get other with
        | some oa => setArch { oa with remEdges := edgeRemove oa.remEdges c }
        | none => pure ()
      for (c, other) in arch.remEdges do
        match (← get).archs.get other with
        | some oa => setArch { oa with insEdges := edgeRemove oa.insEdges c }
        | none => pure ()
      -- `Archetype::drop`: destructors of everything still stored
      for (c, col) in arch.comps.zip arch.cols do
        let w' ← get
        let ty := if c == removed then info.ty else w'.compTy c
        for x in col do dropCell ty x
  for (_, a) in (← get).archs.toList do
    setArch { a with insEdges := edgeRemove a.insEdges removed }

/-- `World::remove_component` -/
def removeComponent (k : Key) : M Bool := do
  if !(← get).comps.contains k then return false
  sendGlobal .remC { id := k }
  let dk ← addTargetedEvent .despawn
  for (_, a) in (← get).archs.toList do
    if a.comps.contains k.idx then
      for id in a.ids do
        push { ty := .despawn, idx := dk.idx, target := id }
  flush FUEL
  let w ← get
  let toRemove := w.byInsertOrder.filter fun hk =>
    match w.handlers.get hk with
    | some h => h.referenced.contains k.idx
    | none => false
  for hk in toRemove do let _ ← removeHandler hk
  let w ← get
  match w.comps.get k with
  | none => throw (.panic "invalidindex")
  | some info =>
    for ev in info.insEvents ++ info.remEvents do
      let w ← get
      match w.tevs.get ev with
      | some ei => let _ ← removeEvent ei.ty ev
      | none => pure ()
    let w ← get
    match w.comps.remove k with
    | none => throw (.panic "internal:component should still exist")
    | some (info, comps) =>
      set { w with comps := comps, removedIds := ('c', k) :: w.removedIds }
      archsRemoveComponent info
      resRefresh
      pure true

end Evenio
