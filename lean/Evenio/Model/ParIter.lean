/-! Model of `fetch.rs: ParIter` (lines 801-828) and of the way rayon executes it.

```rust
self.arch_states.par_iter().zip_eq(self.arch_indices)
    .flat_map(|(state, &index)| {
        let entity_count = archetypes.get(index).unwrap_unchecked().entity_count();
        (0..entity_count).into_par_iter().map(|row| Q::get(state, ArchetypeRow(row)))
    })
```

A *producer* is the zipped cache of the fetcher: a list of `(state, index, count)` where `state` is the
`ArchState`, `index` the archetype index (`SparseMap::keys`), and `count` that archetype's entity count.
An *item* `(state, index, row)` stands for `Q::get(state, row)`: the references it hands out point into
the columns of archetype `index` at row `row`, so two items alias exactly when they agree on
`(index, row)`.

**Execution model (trusted).**  rayon drives an indexed producer (`slice::Iter` zipped with a slice,
`Range<u32>`) by `bridge_producer_consumer`: it recursively `split_at`s the producer at some midpoint
(which midpoint, and whether to split at all, depends on the thread-pool size, the `Splitter` state and on
work stealing) and folds each leaf sequentially on one thread.  `flat_map` folds, for every item of an outer
leaf, the inner parallel iterator, which is again bridged, i.e. split arbitrarily.  We model "some way of
splitting" by an arbitrary binary `Split` tree whose nodes carry the midpoint; the outer tree splits the
producer list, and for every outer position `i` a tree `inner i` splits the row range of that archetype.
A *task* is a leaf of an inner tree: a maximal run of items folded sequentially by one thread.
What is trusted and not proved here: that rayon's bridge realises SOME such pair of trees, that every leaf
is run exactly once, and that `split_at(mid)` of the std producers is `take mid`/`drop mid`.
Core Lean only. -/
namespace Evenio
namespace ParIter

/-- a way of splitting an indexed producer -/
inductive Split
  | leaf
  | node (mid : Nat) (l r : Split)
deriving Repr, Inhabited

/-- run a producer (a list) under a split tree: the list of leaves, each a sequential chunk.
    `take`/`drop` clamp `mid` to the length, as `min mid len`. -/
def splitRun {α : Type} : Split → List α → List (List α)
  | .leaf, xs => [xs]
  | .node mid l r, xs => splitRun l (xs.take mid) ++ splitRun r (xs.drop mid)

variable {σ : Type}

/-- one entry of the fetcher cache: `(arch state, archetype index, entity count)` -/
abbrev Entry (σ : Type) := σ × Nat × Nat
/-- one produced item: `(arch state, archetype index, row)` -/
abbrev Item (σ : Type) := σ × Nat × Nat

/-- the rows of one archetype, `(0..entity_count).map(|row| get(state,row))` -/
def rows (e : Entry σ) : List (Item σ) := (List.range e.2.2).map fun row => (e.1, e.2.1, row)

/-- sequential iteration (`Iter`, fetch.rs 648-677): archetype after archetype, row after row -/
def seqItems (p : List (Entry σ)) : List (Item σ) := p.flatMap rows

/-- the tasks spawned for the outer item at position `i` -/
def innerTasks (inner : Nat → Split) (ei : Entry σ × Nat) : List (List (Item σ)) :=
  splitRun (inner ei.2) (rows ei.1)

/-- all tasks of one execution: the outer tree splits the (position-tagged) producer, every outer leaf
    walks its entries in order and runs the inner parallel iterator of each -/
def tasks (outer : Split) (inner : Nat → Split) (p : List (Entry σ)) : List (List (Item σ)) :=
  (splitRun outer p.zipIdx).flatMap fun chunk => chunk.flatMap (innerTasks inner)

/-- the memory cell an item points at -/
def cell (x : Item σ) : Nat × Nat := (x.2.1, x.2.2)

end ParIter
end Evenio
