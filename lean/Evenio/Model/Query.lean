import Evenio.Model.Access
/-! Model of `query.rs`: the query combinators, their access expression (`Query::init`), their structural
    per-archetype matcher (`Query::new_arch_state`) and the item they produce (`Query::get`).

    Rust tuples `(Q0, .., Qn)` (and `#[derive(Query)]` structs, which expand to the same code) are modelled
    left-nested: `(Q0, Q1, Q2)` is `snoc (snoc (snoc unit Q0) Q1) Q2`, because `init` folds
    `ca = ca.and(&this_ca)` from `new_true` in field order. -/
namespace Evenio

inductive Query
  | ref (c : Nat)            -- `&C`
  | mut (c : Nat)            -- `&mut C`
  | unit                     -- `()`
  | snoc (t q : Query)       -- tuple extended by one field
  | opt (q : Query)          -- `Option<Q>`
  | or (l r : Query)         -- `Or<L, R>`
  | xor (l r : Query)        -- `Xor<L, R>`
  | not (q : Query)          -- `Not<Q>`
  | wth (q : Query)          -- `With<Q>`
  | has (q : Query)          -- `Has<Q>`
  | eid                      -- `EntityId`
  | phantom                  -- `PhantomData<T>`
deriving Repr, Inhabited, DecidableEq

/-- `Query::init`: the access expression. -/
def Query.init : Query → CA
  | .ref c => CA.var c .read
  | .mut c => CA.var c .readWrite
  | .unit => CA.tt
  | .snoc t q => (init t).and (init q)
  | .opt q => CA.tt.or (init q)
  | .or l r => ((init l).or (init r)).or ((init l).and (init r))
  | .xor l r => ((init l).and (init r).not).or ((init r).and (init l).not)
  | .not q => (init q).not
  | .wth q => (init q).clearAccess
  | .has _ => CA.tt
  | .eid => CA.tt
  | .phantom => CA.tt

/-- components registered by `Q::init` (`world.add_component::<C>()`), in visiting order, with repetition -/
def Query.comps : Query → List Nat
  | .ref c => [c]
  | .mut c => [c]
  | .unit => []
  | .snoc t q => comps t ++ comps q
  | .opt q => comps q
  | .or l r => comps l ++ comps r
  | .xor l r => comps l ++ comps r
  | .not q => comps q
  | .wth q => comps q
  | .has q => comps q
  | .eid => []
  | .phantom => []

def Query.mapComps (f : Nat → Nat) : Query → Query
  | .ref c => .ref (f c)
  | .mut c => .mut (f c)
  | .unit => .unit
  | .snoc t q => .snoc (mapComps f t) (mapComps f q)
  | .opt q => .opt (mapComps f q)
  | .or l r => .or (mapComps f l) (mapComps f r)
  | .xor l r => .xor (mapComps f l) (mapComps f r)
  | .not q => .not (mapComps f q)
  | .wth q => .wth (mapComps f q)
  | .has q => .has (mapComps f q)
  | .eid => .eid
  | .phantom => .phantom

/-- `Query::ArchState`: what a fetcher caches per archetype. -/
inductive AS
  | col (c : Nat) (m : Bool)   -- `ColumnPtr<C>` used as `&C` (`m = false`) or `&mut C`
  | ids                        -- `ColumnPtr<EntityId>`
  | triv                       -- `()`: `Not`, `With`, `PhantomData`, `()`
  | flag (b : Bool)            -- `Has`
  | snoc (t a : AS)
  | optSome (a : AS) | optNone
  | left (a : AS) | right (a : AS) | both (a b : AS)
deriving Repr, Inhabited, DecidableEq

/-- `Query::new_arch_state` on an archetype with component set `S`. -/
def Query.archState (S : Nat → Bool) : Query → Option AS
  | .ref c => if S c then some (.col c false) else none
  | .mut c => if S c then some (.col c true) else none
  | .unit => some .triv
  | .snoc t q => match archState S t, archState S q with
      | some a, some b => some (.snoc a b)
      | _, _ => none
  | .opt q => match archState S q with
      | some a => some (.optSome a)
      | none => some .optNone
  | .or l r => match archState S l, archState S r with
      | none, none => none
      | none, some b => some (.right b)
      | some a, none => some (.left a)
      | some a, some b => some (.both a b)
  | .xor l r => match archState S l, archState S r with
      | none, none => none
      | none, some b => some (.right b)
      | some a, none => some (.left a)
      | some _, some _ => none
  | .not q => match archState S q with
      | some _ => none
      | none => some .triv
  | .wth q => (archState S q).map fun _ => .triv
  | .has q => some (.flag (archState S q).isSome)
  | .eid => some .ids
  | .phantom => some .triv

/-- the references `Query::get` hands out for one row: `(component, is_mutable)` -/
def AS.refs : AS → List (Nat × Bool)
  | .col c m => [(c, m)]
  | .ids => []
  | .triv => []
  | .flag _ => []
  | .snoc t a => refs t ++ refs a
  | .optSome a => refs a
  | .optNone => []
  | .left a => refs a
  | .right a => refs a
  | .both a b => refs a ++ refs b

/-- the documented Boolean meaning of a query (tutorial.md, "Fetching") -/
def Query.sem (S : Nat → Bool) : Query → Bool
  | .ref c => S c
  | .mut c => S c
  | .unit => true
  | .snoc t q => sem S t && sem S q
  | .opt _ => true
  | .or l r => sem S l || sem S r
  | .xor l r => sem S l != sem S r
  | .not q => !sem S q
  | .wth q => sem S q
  | .has _ => true
  | .eid => true
  | .phantom => true

/-- gate table lookup is in `Gates`; structural read-only-ness of an arch state -/
def AS.readOnly (a : AS) : Bool := a.refs.all fun (_, m) => !m

/-- a query item, rendered structurally -/
inductive Item
  | r (c : Nat) (v : Nat) | m (c : Nat) (v : Nat)
  | eid (idx gen : Nat)
  | triv | flag (b : Bool)
  | snoc (t i : Item)
  | some (i : Item) | none
  | left (i : Item) | right (i : Item) | both (i j : Item)
deriving Repr, Inhabited, DecidableEq

/-- `Query::get(state, row)`: `rd c` reads column `c` at the row (`none` = the column does not exist: UB marker) -/
def AS.item (rd : Nat → Option Nat) (ent : Nat × Nat) : AS → Option Item
  | .col c false => (rd c).map (.r c)
  | .col c true => (rd c).map (.m c)
  | .ids => some (.eid ent.1 ent.2)
  | .triv => some .triv
  | .flag b => some (.flag b)
  | .snoc t a => match item rd ent t, item rd ent a with
      | some x, some y => some (.snoc x y)
      | _, _ => none
  | .optSome a => (item rd ent a).map .some
  | .optNone => some .none
  | .left a => (item rd ent a).map .left
  | .right a => (item rd ent a).map .right
  | .both a b => match item rd ent a, item rd ent b with
      | some x, some y => some (.both x y)
      | _, _ => none

end Evenio
