import Evenio.Model.World
/-! Model of the SEQUENTIAL fetcher iterator: `fetch.rs` `FetcherState::iter_unchecked` (lines 120-148), `struct Iter`
    (628-644), `Iterator::next` (649-675), `ExactSizeIterator::len` (683-699), `FusedIterator` (702).

```rust
pub struct Iter<'a, Q: Query> {
    state: NonNull<Q::ArchState>,        // into `self.map.values()`, moves in lockstep with `index`
    index: NonNull<ArchetypeIdx>,        // into `self.map.keys()`
    index_last: NonNull<ArchetypeIdx>,   // the LAST index (not one-past-the-end); dangling if the cache is empty
    row: ArchetypeRow,
    len: u32,                            // entity count of the current archetype
    archetypes: &'a Archetypes,
}
fn next(&mut self) -> Option<Self::Item> {
    if self.row.0 == self.len {
        if self.index == self.index_last { return None; }
        self.state = self.state.add(1);  self.index = self.index.add(1);
        let idx = *self.index;
        let arch = self.archetypes.get(idx).unwrap_unchecked();      // "fetch.rs:iter:archetypes.get"
        self.row = ArchetypeRow(0);  self.len = arch.entity_count();
        assume_unchecked(self.len > 0);                              // "fetch.rs:iter:assume_nonempty"
    }
    let item = Q::get(&*self.state, self.row);
    self.row.0 += 1;
    Some(item)
}
fn len(&self) -> usize {
    let mut remaining = self.len - self.row.0;
    let mut index = self.index;
    while index != self.index_last { index = index.add(1);
        remaining += self.archetypes.get(*index).unwrap_unchecked().entity_count(); }
    remaining as usize
}
```

The world model (`paramRows` in `World.lean`) abstracts this pointer state machine by a list traversal.  Here the state
machine is modelled literally; `Evenio/Proofs/IterSM.lean` proves that both compute the same thing.

**Encoding.**  The fetcher cache is a sparse map; its dense arrays are `keys` (`self.map.keys()`, archetype indices) and
the parallel array of arch states (`self.map.values()`).  A pointer into either array is its OFFSET from the start of
the array (`state` and `index` move in lockstep, so one offset `pos` stands for both); the archetype table is the
function `count : Nat → Option Nat`, `count ai = some n` iff archetype `ai` is live and has `n` entities
(`Archetypes::get(ai).map(entity_count)`).  An item is the pair `(pos, row)`: it stands for
`Q::get(&states[pos], row)`, which reads row `row` of the columns of archetype `keys[pos]`.

Every `unwrap_unchecked` / `assume_unchecked` is a check that ends the run with the site's marker string.  Reading
`*self.index` through an offset outside the dense array has its own marker `fetch.rs:iter:index-oob`; it is proved
unreachable from `IterSM.new` for ANY `keys`/`count` (`Proofs/IterSM.lean`: `no_oob`, via `Valid` + `next_spec`).

Not modelled: `u32` wrap-around of `row`/`len`/`remaining` (all arithmetic is on `Nat`), the
`assume_unchecked(indices.len() == states.len())` of `iter_unchecked` (the model has ONE offset for both arrays; the
alignment is `SparseMap.WF`, a hypothesis of `paramRows_eq_run`).  Core Lean only. -/
namespace Evenio

/-- `fetch.rs: struct Iter` -/
structure IterSM where
  /-- offset of `index` (and of `state`) from the start of the dense arrays -/
  pos : Nat
  /-- offset of `index_last` -/
  last : Nat
  /-- the three pointers are `NonNull::dangling()` (empty cache); then `pos = last = 0` stands for "equal pointers" -/
  dangling : Bool
  row : Nat
  len : Nat
deriving Repr, DecidableEq, Inhabited

namespace IterSM

def siteGet : String := "fetch.rs:iter:archetypes.get"
def siteAssume : String := "fetch.rs:iter:assume_nonempty"
/-- `*self.index` read outside `self.map.keys()`; unreachable from `new` -/
def siteOob : String := "fetch.rs:iter:index-oob"

/-- `FetcherState::iter_unchecked` -/
def new (keys : List Nat) (count : Nat → Option Nat) : Except String IterSM :=
  match keys with
  | [] => .ok { pos := 0, last := 0, dangling := true, row := 0, len := 0 }
  | k0 :: _ =>
    match count k0 with                                   -- `archetypes.get(indices[0]).unwrap_unchecked()`
    | none => .error siteGet
    | some n => .ok { pos := 0, last := keys.length - 1, dangling := false, row := 0, len := n }

/-- `Iterator::next`; the item is `(pos, row)` -/
def next (keys : List Nat) (count : Nat → Option Nat) (it : IterSM) : Except String (Option (Nat × Nat) × IterSM) :=
  if it.row == it.len then
    if it.pos == it.last then .ok (none, it)
    else
      let pos := it.pos + 1                               -- `state.add(1)`, `index.add(1)`
      match keys[pos]? with                               -- `*self.index`
      | none => .error siteOob
      | some idx =>
        match count idx with                              -- `archetypes.get(idx).unwrap_unchecked()`
        | none => .error siteGet
        | some n =>
          if n == 0 then .error siteAssume                -- `assume_unchecked(self.len > 0)`
          else .ok (some (pos, 0), { it with pos := pos, row := 1, len := n })
  else .ok (some (it.pos, it.row), { it with row := it.row + 1 })

/-- the `while index != index_last` loop of `len()`.  `fuel` is `keys.length - index`: when it is `0` the pointer is at
    or beyond the end of the array and the next read is out of bounds, so no iteration is ever cut short. -/
def remainingLoop (keys : List Nat) (count : Nat → Option Nat) (last : Nat) : Nat → Nat → Nat → Except String Nat
  | 0, index, acc => if index == last then .ok acc else .error siteOob
  | fuel + 1, index, acc =>
    if index == last then .ok acc
    else
      match keys[index + 1]? with
      | none => .error siteOob
      | some idx =>
        match count idx with
        | none => .error siteGet
        | some n => remainingLoop keys count last fuel (index + 1) (acc + n)

/-- `ExactSizeIterator::len` -/
def remaining (keys : List Nat) (count : Nat → Option Nat) (it : IterSM) : Except String Nat :=
  remainingLoop keys count it.last (keys.length - it.pos) it.pos (it.len - it.row)

/-- what a driver observes -/
structure Trace where
  /-- the yielded items `(pos, row)`, in order -/
  items : List (Nat × Nat)
  /-- the value of `len()` before every call of `next()` (including the call that returned `None`) -/
  lens : List Nat
  /-- the iterator after the last call -/
  final : IterSM
  /-- `next()` returned `None` (`false`: the fuel ran out first) -/
  done : Bool
deriving Repr, DecidableEq, Inhabited

/-- `for item in iter { .. }`: call `next` until it returns `None` (at most `fuel` calls); `lens` stays empty -/
def drainFrom (keys : List Nat) (count : Nat → Option Nat) : Nat → IterSM → Except String Trace
  | 0, it => .ok { items := [], lens := [], final := it, done := false }
  | fuel + 1, it =>
    match it.next keys count with
    | .error e => .error e
    | .ok (none, it') => .ok { items := [], lens := [], final := it', done := true }
    | .ok (some x, it') =>
      match drainFrom keys count fuel it' with
      | .error e => .error e
      | .ok t => .ok { t with items := x :: t.items }

/-- what the Rust harness does: `loop { lens.push(iter.len()); match iter.next() { Some(x) => items.push(x), None => break } }` -/
def runFrom (keys : List Nat) (count : Nat → Option Nat) : Nat → IterSM → Except String Trace
  | 0, it => .ok { items := [], lens := [], final := it, done := false }
  | fuel + 1, it =>
    match it.remaining keys count with
    | .error e => .error e
    | .ok r =>
      match it.next keys count with
      | .error e => .error e
      | .ok (none, it') => .ok { items := [], lens := [r], final := it', done := true }
      | .ok (some x, it') =>
        match runFrom keys count fuel it' with
        | .error e => .error e
        | .ok t => .ok { t with items := x :: t.items, lens := r :: t.lens }

/-- `iter_unchecked` followed by `for item in iter` -/
def drain (keys : List Nat) (count : Nat → Option Nat) (fuel : Nat) : Except String Trace :=
  match new keys count with
  | .error e => .error e
  | .ok it => drainFrom keys count fuel it

/-- `iter_unchecked` followed by the harness loop (`len()` before every `next()`) -/
def run (keys : List Nat) (count : Nat → Option Nat) (fuel : Nat) : Except String Trace :=
  match new keys count with
  | .error e => .error e
  | .ok it => runFrom keys count fuel it

end IterSM

/-- the `count` function of a world: `archetypes.get(ai).map(|a| a.entity_count())` -/
def World.entityCount (w : World) (ai : Nat) : Option Nat := (w.archs.get ai).map fun a => a.ids.length

/-- the item `(pos, row)` dereferenced in world `w` for the cache `(keys, vals)`: `Q::get(&states[pos], row)` reads
    the arch state `vals[pos]` and the archetype `keys[pos]` — the shape `paramRows` returns -/
def IterSM.deref (w : World) (keys : List Nat) (vals : List (AS × Nat)) (x : Nat × Nat) : Option (AS × Arch × Nat) :=
  match keys[x.1]?, vals[x.1]? with
  | some k, some v => (w.archs.get k).map fun a => (v.1, a, x.2)
  | _, _ => none

end Evenio
