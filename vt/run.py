"""Runs histories on the implementation (Rust harness) and on the Lean model, parses the two observation
streams and compares them per channel."""
import os, subprocess, tempfile, re

ROOT = os.path.abspath(os.path.join(os.path.dirname(os.path.abspath(__file__)), ".."))
CACHE = os.path.join(ROOT, ".cache")
DRIVER = os.path.join(ROOT, "lean", ".lake", "build", "bin", "driver")


def hx_path(profile):
    if profile == "asan":
        return os.path.join(CACHE, "target_asan", "x86_64-unknown-linux-gnu", "release", "hx")
    return os.path.join(CACHE, "target", profile, "hx")


CHANNEL_OF = [
    ("snap archcap", "cap"), ("hinfo ", "hinfo"),
    ("ret ", "ret"), ("panic ", "ret"), ("ub ", "ret"), ("assert ", "ret"), ("bad-op", "ret"),
    ("id ", "ids"), ("t ", "trace"), ("ed", "evdrops"), ("cd", "cdrops"), ("st ", "store"), ("reg ", "reg"),
    ("snap ", "arch"), ("pend ", "pend"), ("inv ", "inv"), ("pr ", "ids"), ("live ", "ledger"), ("ca ", "accept"), ("exit ", "exit"),
]


def channel(line):
    for pre, ch in CHANNEL_OF:
        if line.startswith(pre):
            return ch
    return "other"


def format_histories(histories):
    out = []
    for hid, ops in histories:
        out.append(f"=== {hid}")
        out.extend(ops)
    return "\n".join(out) + "\n"


def parse_output(text):
    """-> {hid: [(op, [obs lines])]}"""
    res = {}
    cur = None
    for line in text.split("\n"):
        if not line:
            continue
        if line.startswith("=== "):
            cur = []
            res[line[4:]] = cur
        elif line.startswith("> "):
            if cur is not None and cur:
                cur[-1][1].append(line[2:])
        else:
            if cur is not None:
                cur.append((line, []))
    return res


def run_model(histories, release=False, snap=False, inv=False):
    inp = format_histories(histories)
    args = [DRIVER] + (["--release"] if release else []) + (["--snap"] if snap else []) + (["--inv"] if inv else [])
    p = subprocess.run(args, input=inp, capture_output=True, text=True)
    if p.returncode != 0:
        raise RuntimeError(f"model driver failed rc={p.returncode}: {p.stderr[:500]}")
    return parse_output(p.stdout)


def _limit_memory():
    """address-space limit for the harness process: a defective build that allocates without bound (a seeded change made
    one grow past 38 GB) must end in an allocation failure of its own - a crash attributed to the history in flight - and
    not take the machine, and the other checks running on it, down.  The unchanged code needs well under 1 GB."""
    import resource
    lim = int(os.environ.get("VERIF_HX_MEM_GB", "8")) << 30
    resource.setrlimit(resource.RLIMIT_AS, (lim, lim))


def run_impl(histories, profile="debug", snap=False, timeout=600, exe=None, env=None):
    """Runs the harness; a crash (abort, signal) is attributed to the history being executed, recorded as an
    `exit` observation on its last operation, and execution resumes with the next history."""
    exe = exe or hx_path(profile)
    res = {}
    todo = list(histories)
    crashes = 0
    while todo:
        if crashes >= 20:
            break           # the build is thoroughly broken: twenty crashing histories are enough to report
        inp = format_histories(todo)
        args = [exe] + (["--snap"] if snap else [])
        # a batch normally takes seconds; a hang (an endless loop in the implementation) is cut off early
        timeout = min(timeout, max(60, int(0.004 * sum(len(o) for _, o in todo))))
        try:
            if profile == "asan" and env is None:
                env = dict(os.environ, ASAN_OPTIONS="detect_leaks=0:abort_on_error=1")
            p = subprocess.run(args, input=inp, capture_output=True, text=True, timeout=timeout, env=env, errors="replace",
                               preexec_fn=(None if profile == "asan" else _limit_memory))
            rc = p.returncode
            stdout = p.stdout
            stderr = p.stderr
        except subprocess.TimeoutExpired as ex:
            rc = "timeout"
            crashes += 10     # at most two hangs per batch
            stdout = (ex.stdout or b"").decode(errors="replace") if isinstance(ex.stdout, bytes) else (ex.stdout or "")
            stderr = ""
        part = parse_output(stdout)
        if rc == 0:
            res.update(part)
            break
        # which history was in flight?
        done_ids = list(part.keys())
        if not done_ids:
            hid = todo[0][0]
            part[hid] = [(todo[0][1][0] if todo[0][1] else "", [])]
            done_ids = [hid]
        crashed = done_ids[-1]
        if rc == "timeout":
            # a loaded machine can make a healthy batch overrun: the suspect history alone, with a generous limit, decides
            single = [h for h in todo if h[0] == crashed]
            try:
                p2 = subprocess.run(args, input=format_histories(single), capture_output=True, text=True, timeout=90,
                                    env=env, errors="replace", preexec_fn=(None if profile == "asan" else _limit_memory))
                if p2.returncode == 0:
                    part.update(parse_output(p2.stdout))
                    res.update(part)
                    idx = [h for h, _ in todo].index(crashed)
                    todo = todo[idx + 1:]
                    crashes -= 10
                    continue
            except subprocess.TimeoutExpired:
                pass
        ops = part[crashed]
        if not ops:
            ops.append(("", []))
        msg = (stderr or "").strip().split("\n")
        msg = [m for m in msg if m.strip()]
        short = msg[-1][:160] if msg else ""
        ops[-1][1].append(f"exit {rc} {short}".strip())
        crashes += 1
        res.update(part)
        idx = [h for h, _ in todo].index(crashed)
        todo = todo[idx + 1:]
    return res


def base_norm(l):
    """a failed debug assertion is an internal panic on the implementation side and an `assert <site>` marker in the model"""
    if l.startswith("assert ") or l.startswith("panic internal:assertion"):
        return "panic internal:assertion"
    return l


def compare(impl, model, channels, canon=None):
    """-> list of (hid, op index, op, channel, impl lines, model lines) for the first difference of every history"""
    diffs = []
    for hid, iops in impl.items():
        mops = model.get(hid)
        if mops is None:
            diffs.append((hid, 0, "", "missing", [], []))
            continue
        n = max(len(iops), len(mops))
        found = False
        for i in range(n):
            if i >= len(iops) or i >= len(mops):
                # one side stopped early (crash or UB marker)
                io = iops[i] if i < len(iops) else None
                mo = mops[i] if i < len(mops) else None
                diffs.append((hid, i, (io or mo)[0], "length", io[1] if io else ["<no more output>"], mo[1] if mo else ["<no more output>"]))
                found = True
                break
            (op, il), (_, ml) = iops[i], mops[i]
            incidental = False
            if canon and op.startswith("rmc ") and il != ml and getattr(canon, "rmc", None):
                # (the cascade is order-independent on this history: see judge.rmc_projection)
                pr = canon.rmc(iops, mops, i)
                if pr is not None and pr[0] != pr[1]:
                    diffs.append((hid, i, op, "cascade-outcome", pr[0], pr[1]))
                    found = True
                    break
                if pr is not None:
                    # same order-independent outcome, and nothing that ran after the announcement handed out a serial
                    # or an ordinal: the two sides are in the same state up to the usual canonicalisation; go on
                    continue
            if canon and op.startswith("rmc ") and il != ml:
                # ... with one exception: an INTERNAL panic of the library (an index with an invalid key, a failed
                # assertion) or a crash during the removal, where the model returns or ends in a documented handler panic.
                # No order of the cascade explains that - the unchanged code has no such panic in any order - so it
                # confirms (round-7 change C03_W_1: stale member_of entries tear down an unrelated archetype).
                ibad = [l for l in il if l.startswith(("panic internal", "exit "))]
                mbad = [l for l in ml if l.startswith(("panic internal", "ub ", "assert ", "exit "))]
                if ibad and not mbad:
                    diffs.append((hid, i, op, "ret", ibad, [l for l in ml if channel(l) == "ret"]))
                    found = True
                    break
                # `remove_component` despawns the entities that have the component in an unspecified order, and handlers of
                # the RemoveComponent / Despawn notifications can make the outcome depend on that order (ordinals, serials,
                # what a fetcher sees mid-cascade, how far a budgeted cascade gets). A difference that first shows in such
                # an operation cannot CONFIRM a violation, and neither can anything after it in the same history.
                break
            if canon and op.startswith("setgen ") and il != ml:
                # the generation hook acts on whichever slot the entity happens to occupy: a different (unspecified) slot
                # reuse order makes it succeed on one side only; everything downstream is an artefact of the hook
                break
            for ch in channels + ["exit"]:
                a = [base_norm(l) for l in il if channel(l) == ch]
                b = [base_norm(l) for l in ml if channel(l) == ch]
                raw_differs = a != b
                if canon:
                    a = canon(ch, a, op)
                    b = canon(ch, b, op)
                if a != b:
                    diffs.append((hid, i, op, ch, a, b))
                    found = True
                    break
                if canon and raw_differs and op.startswith("rmc "):
                    incidental = True
            if found:
                break
            if incidental:
                # the two sides went through a component removal in a different (unspecified) order: serials and ordinals
                # handed out from here on are permuted, so nothing later in this history can confirm a violation
                break
    return diffs
