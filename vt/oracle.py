"""Model-independent oracles (search stage and direct judges): the documented meaning of queries evaluated in Python
on the implementation's own `st` lines.  They matter when a regenerated table changes model and code together: the
correspondence still agrees, a theorem no longer checks, and these oracles find the concrete failing input."""
import re
from itertools import product


def parse(code):
    q, rest = _p(code)
    assert rest == "", code
    return q


def _p(s):
    c = s[0]
    if c == "r":
        return ("ref", int(s[1])), s[2:]
    if c == "m":
        return ("mut", int(s[1])), s[2:]
    if c == "E":
        return ("eid",), s[1:]
    if c == "P":
        return ("phantom",), s[1:]
    if c in "?!WH":
        q, rest = _p(s[1:])
        return ({"?": "opt", "!": "not", "W": "with", "H": "has"}[c], q), rest
    if c in "OX":
        l, rest = _p(s[2:])
        r, rest = _p(rest[1:])
        return ("or" if c == "O" else "xor", l, r), rest[1:]
    if c == "(":
        if s[1] == ")":
            return ("tup", []), s[2:]
        items, rest = [], s[1:]
        while True:
            q, rest = _p(rest)
            items.append(q)
            if rest[0] == ",":
                rest = rest[1:]
                if rest[0] == ")":          # trailing comma `(r0,)`
                    return ("tup", items), rest[1:]
                continue
            return ("tup", items), rest[1:]
    raise ValueError(s)


def comps_of(q):
    k = q[0]
    if k in ("ref", "mut"):
        return {q[1]}
    if k in ("eid", "phantom"):
        return set()
    if k == "tup":
        return set().union(*[comps_of(x) for x in q[1]]) if q[1] else set()
    return set().union(*[comps_of(x) for x in q[1:]])


def sem(q, S):
    k = q[0]
    if k in ("ref", "mut"):
        return q[1] in S
    if k in ("eid", "phantom", "opt", "has"):
        return True
    if k == "tup":
        return all(sem(x, S) for x in q[1])
    if k == "or":
        return sem(q[1], S) or sem(q[2], S)
    if k == "xor":
        return sem(q[1], S) != sem(q[2], S)
    if k == "not":
        return not sem(q[1], S)
    if k == "with":
        return sem(q[1], S)
    raise ValueError(q)


def refs(q, S):
    """references handed out on an archetype with component set S, or None when the query does not match"""
    k = q[0]
    if k == "ref":
        return [(q[1], False)] if q[1] in S else None
    if k == "mut":
        return [(q[1], True)] if q[1] in S else None
    if k in ("eid", "phantom"):
        return []
    if k == "tup":
        out = []
        for x in q[1]:
            r = refs(x, S)
            if r is None:
                return None
            out += r
        return out
    if k == "opt":
        return refs(q[1], S) or []
    if k == "or":
        a, b = refs(q[1], S), refs(q[2], S)
        if a is None and b is None:
            return None
        return (a or []) + (b or [])
    if k == "xor":
        a, b = refs(q[1], S), refs(q[2], S)
        if (a is None) == (b is None):
            return None
        return a if a is not None else b
    if k == "not":
        return [] if refs(q[1], S) is None else None
    if k == "with":
        return [] if refs(q[1], S) is not None else None
    if k == "has":
        return []
    raise ValueError(q)


def aliases(l):
    for c, m in l:
        if m and sum(1 for c2, _ in l if c2 == c) >= 2:
            return True
    return False


def safe(queries):
    """no archetype on which the parameters that match it hand out a mutable reference alongside another one"""
    cs = sorted(set().union(*[comps_of(q) for q in queries])) if queries else []
    for bits in product([False, True], repeat=len(cs)):
        S = {c for c, b in zip(cs, bits) if b}
        handed = []
        for q in queries:
            r = refs(q, S)
            if r is not None:
                handed += r
        if aliases(handed):
            return False, S
    return True, None


SIZED = {0, 1, 4}


def render(q, S, vals, ent):
    """the item the harness prints for entity `ent` with component values `vals` (dict comp -> value)"""
    k = q[0]
    if k == "ref":
        return f"r{q[1]}={vals.get(q[1], 0) if q[1] in SIZED else 0}"
    if k == "mut":
        return f"m{q[1]}={vals.get(q[1], 0) if q[1] in SIZED else 0}"
    if k == "eid":
        return ent
    if k in ("phantom", "not", "with"):
        return "_"
    if k == "has":
        return "H1" if sem(q[1], S) else "H0"
    if k == "tup":
        if not q[1]:
            return "_"
        return "(" + "".join(render(x, S, vals, ent) + "," for x in q[1]) + ")"
    if k == "opt":
        return f"S({render(q[1], S, vals, ent)})" if sem(q[1], S) else "N"
    if k in ("or", "xor"):
        a, b = sem(q[1], S), sem(q[2], S)
        if a and b:
            return f"B({render(q[1], S, vals, ent)}|{render(q[2], S, vals, ent)})"
        if a:
            return f"L({render(q[1], S, vals, ent)})"
        return f"R({render(q[2], S, vals, ent)})"
    raise ValueError(q)


def parse_store(line):
    """`st n=.. #0={K0:5,K2} #1=x ...` -> {ent: {comp: value}} for live entities"""
    out = {}
    for m in re.finditer(r"(#\d+)=(\{[^}]*\}|x|\?)", line):
        if m.group(2) in ("x", "?"):
            continue
        vals = {}
        body = m.group(2)[1:-1]
        for part in body.split(","):
            if not part:
                continue
            mm = re.match(r"K(\d+)(?::(\d+))?", part)
            vals[int(mm.group(1))] = int(mm.group(2) or 0)
        out[m.group(1)] = vals
    return out


def handler_specs(ops):
    """name -> dict(recv, mutable, rq, params=[(kind, code)], prio, line index)"""
    specs = {}
    for i, (op, obs) in enumerate(ops):
        if not op.startswith("addh "):
            continue
        f = dict(t.split("=", 1) for t in op.split(" ")[1:] if "=" in t)
        params = []
        for p in f.get("params", "").split(";"):
            if p:
                parts = p.split(":")
                params.append(parts)
        # registered: the call returned `ok`, or it unwound (a panic in a receiver of the AddHandler notification, which is
        # sent after the handler has been added) and the implementation's own `reg` line lists the handler afterwards
        listed = False
        for l in obs:
            m = re.match(r"reg c:\S* e:\S* h:(\S*) stale=", l)
            if m and f["name"] in [x.split("=")[0] for x in m.group(1).split(",")]:
                listed = True
        specs[f["name"]] = dict(params=params, prio=f.get("prio", "m"), index=i,
                                accepted=any(l == "ret ok" for l in obs) or listed)
    return specs


def expected_items(code, store):
    q = parse(code)
    items = []
    for ent, vals in store.items():
        S = set(vals.keys())
        if sem(q, S):
            items.append(render(q, S, vals, ent))
    return sorted(items)
