"""Build steps shared by every check: translator, Lean build + axiom audit, harness build (all from /repo's working tree)."""
import fcntl, glob, hashlib, json, os, re, shutil, subprocess, sys

ROOT = os.path.abspath(os.path.join(os.path.dirname(os.path.abspath(__file__)), ".."))
# /repo unless a sandboxed copy of the whole machinery is pointed elsewhere (tools/mut_sandbox.sh); the harness's path
# dependency in harness/Cargo.toml has to point at the same place
REPO = os.environ.get("EVENIO_REPO", "/repo")
CACHE = os.path.join(ROOT, ".cache")
LEAN = os.path.join(ROOT, "lean")
HARNESS = os.path.join(ROOT, "harness")
REPLAYS = os.path.join(ROOT, "replays")
EVIDENCE = os.path.join(ROOT, "evidence")
ALLOWED_AXIOMS = {"propext", "Classical.choice", "Quot.sound"}
ENV = dict(os.environ, CARGO_NET_OFFLINE="true")


def sh(cmd, cwd=None, timeout=3600, env=None):
    p = subprocess.run(cmd, cwd=cwd, capture_output=True, text=True, timeout=timeout, env=env or ENV)
    return p.returncode, p.stdout + p.stderr


class Lock:
    def __enter__(self):
        os.makedirs(CACHE, exist_ok=True)
        self.f = open(os.path.join(CACHE, "lock"), "w")
        fcntl.flock(self.f, fcntl.LOCK_EX)
        return self

    def __exit__(self, *a):
        fcntl.flock(self.f, fcntl.LOCK_UN)
        self.f.close()


def repo_fingerprint():
    h = hashlib.sha256()
    for root, dirs, files in os.walk(REPO):
        dirs[:] = sorted(d for d in dirs if d not in ("target", ".git"))
        for fn in sorted(files):
            if fn.endswith((".rs", ".toml", ".lock")):
                p = os.path.join(root, fn)
                h.update(p.encode())
                h.update(open(p, "rb").read())
    return h.hexdigest()[:16]


def obligations():
    return json.load(open(os.path.join(LEAN, "obligations.json")))


# ---- step 1-3: builds --------------------------------------------------------------------------------------------

def step_extract():
    rc, out = sh([sys.executable, os.path.join(ROOT, "tools", "extract.py")])
    try:
        return json.loads(out[out.index("{"):])
    except Exception:
        return {"error": out[-400:]}


def step_family():
    rc, out = sh([sys.executable, os.path.join(ROOT, "tools", "family.py")])
    return rc == 0


def step_lean(prop, recheck=False):
    """-> dict(built_driver, theorems: {name: status}, log); `recheck` re-checks the compiled modules with leanchecker"""
    res = dict(driver=False, theorems={}, log="", scan=[], leanchecker=None)
    rc, out = sh(["lake", "build", "driver"], cwd=LEAN)
    res["driver"] = rc == 0
    if rc != 0:
        res["log"] += out[-3000:]
    obl = obligations().get(prop, {})
    mods = obl.get("modules", [])
    thms = obl.get("theorems", [])
    built = True
    if mods:
        rc, out = sh(["lake", "build"] + mods, cwd=LEAN)
        built = rc == 0
        if rc != 0:
            res["log"] += out[-4000:]
    # audit: `#print axioms` on every listed theorem
    if thms:
        os.makedirs(os.path.join(CACHE, "audit"), exist_ok=True)
        path = os.path.join(CACHE, "audit", f"Audit_{prop}.lean")
        with open(path, "w") as fh:
            for m in mods:
                fh.write(f"import {m}\n")
            for t in thms:
                fh.write(f"#print axioms {t}\n")
        rc, out = sh(["lake", "env", "lean", path], cwd=LEAN)
        for t in thms:
            short = t.split(".")[-1]
            m = re.search(r"'" + re.escape(t) + r"' (depends on axioms: \[([^\]]*)\]|does not depend on any axioms)", out)
            if not m:
                m = re.search(r"'[\w.]*" + re.escape(short) + r"' (depends on axioms: \[([^\]]*)\]|does not depend on any axioms)", out)
            if not m or not built:
                res["theorems"][t] = "missing"
            else:
                axs = set(a.strip() for a in (m.group(2) or "").replace("\n", " ").split(",") if a.strip())
                bad = axs - ALLOWED_AXIOMS
                res["theorems"][t] = "ok" if not bad else "axioms:" + ",".join(sorted(bad))
        if rc != 0:
            res["log"] += out[-2000:]
    if recheck and mods and built:
        # independent re-check of the compiled .olean files of the property's modules
        rc, out = sh(["lake", "env", "leanchecker"] + mods, cwd=LEAN, timeout=7200)
        res["leanchecker"] = "ok" if rc == 0 else "failed: " + out[-600:]
        if rc != 0:
            for t in list(res["theorems"]):
                res["theorems"][t] = "leanchecker-failed"
            res["log"] += out[-1500:]
    # scan sources for escape hatches (comments stripped)
    # (files that are not tracked by git - work in progress next to the deliverable - are not part of what is claimed)
    tracked = None
    try:
        rc, out = sh(["git", "ls-files", "--", "lean"], cwd=ROOT)
        if rc == 0 and out.strip():
            tracked = {os.path.join(ROOT, l.strip()) for l in out.split("\n") if l.strip().endswith(".lean")}
    except Exception:
        tracked = None
    for path in glob.glob(os.path.join(LEAN, "Evenio", "**", "*.lean"), recursive=True) + [os.path.join(LEAN, "Main.lean")]:
        if tracked is not None and os.path.abspath(path) not in tracked:
            continue
        txt = open(path).read()
        txt = re.sub(r"/-.*?-/", "", txt, flags=re.S)
        txt = re.sub(r"--[^\n]*", "", txt)
        for m in re.finditer(r"\b(sorry|admit|native_decide|bv_decide|implemented_by|unsafe |maxHeartbeats 0)\b|^axiom ", txt, flags=re.M):
            res["scan"].append(f"{os.path.relpath(path, LEAN)}: {m.group(0).strip()}")
    return res


def step_harness(profiles, features=()):
    ok = True
    log = ""
    lock = os.path.join(HARNESS, "Cargo.lock")
    if not os.path.exists(lock) and os.path.exists(os.path.join(REPO, "Cargo.lock")):
        shutil.copy(os.path.join(REPO, "Cargo.lock"), lock)
    for prof in profiles:
        env = None
        if prof == "asan":
            # release-mode AddressSanitizer build (nightly; works offline): a failing-input detector for C01's thorough tier
            cmd = ["cargo", "+nightly", "build", "--offline", "--release", "--target", "x86_64-unknown-linux-gnu",
                   "--target-dir", os.path.join(CACHE, "target_asan")]
            env = dict(ENV, RUSTFLAGS="-Zsanitizer=address")
        else:
            cmd = ["cargo", "build", "--offline"] + (["--release"] if prof == "release" else [])
        if features:
            cmd += ["--features", ",".join(features)]
        rc, out = sh(cmd, cwd=HARNESS, env=env)
        if rc != 0:
            ok = False
            log += out[-3000:]
    return ok, log




# ---- function fingerprints: which hand-modelled functions changed since the model was last validated against them ----

def function_fingerprints():
    """{file::fn: sha} over /repo/src (comments and whitespace stripped); functions are split at `fn name` boundaries"""
    out = {}
    for root, dirs, files in os.walk(os.path.join(REPO, "src")):
        for fn in sorted(files):
            if not fn.endswith(".rs"):
                continue
            path = os.path.join(root, fn)
            rel = os.path.relpath(path, REPO)
            text = open(path).read()
            cut = text.find("#[cfg(test)]\nmod tests")
            if cut >= 0:
                text = text[:cut]
            text = re.sub(r"//[^\n]*", "", text)
            parts = re.split(r"\bfn\s+([A-Za-z_0-9]+)", text)
            # parts = [prefix, name1, body1, name2, body2, ...]
            seen = {}
            for i in range(1, len(parts) - 1, 2):
                name = parts[i]
                body = re.sub(r"\s+", "", parts[i + 1])
                n = seen.get(name, 0)
                seen[name] = n + 1
                key = f"{rel}::{name}" + (f"#{n}" if n else "")
                out[key] = hashlib.sha256(body.encode()).hexdigest()[:12]
    return out


def changed_functions():
    """functions whose text differs from the committed fingerprints (tools/fingerprints.json)"""
    p = os.path.join(ROOT, "tools", "fingerprints.json")
    if not os.path.exists(p):
        return []
    old = json.load(open(p))
    new = function_fingerprints()
    return sorted(k for k in set(old) | set(new) if old.get(k) != new.get(k))
