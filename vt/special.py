"""C18 (compile-time gates; rustc is the implementation in the correspondence check) and C19 (parallel iteration)."""
import glob, hashlib, json, os, re, subprocess, sys, time, random, concurrent.futures

ROOT = os.path.abspath(os.path.join(os.path.dirname(os.path.abspath(__file__)), ".."))
CACHE = os.path.join(ROOT, ".cache")
sys.path.insert(0, ROOT)

PRELUDE = r'''#![allow(unused, dead_code)]
use evenio::prelude::*;
use evenio::event::{EventMut, ReceiverMut};
use evenio::query::{Or, Xor, Not, With, Has};
use evenio::fetch::{Single, TrySingle};
use core::marker::PhantomData;
#[derive(Component)] struct A(u32);
#[derive(Component)] struct B(u32);
#[derive(Component)] #[component(immutable)] struct I(u32);
#[derive(Component)] struct R(std::rc::Rc<()>);
#[derive(Component)] struct Gd(std::sync::MutexGuard<'static, i32>);   // Sync, not Send
#[derive(Component)] struct Cl(std::cell::Cell<i32>);                  // Send, not Sync
#[derive(GlobalEvent)] struct E(u32);
#[derive(GlobalEvent)] #[event(immutable)] struct EI(u32);
#[derive(TargetedEvent)] struct T(u32);
#[derive(TargetedEvent)] #[event(immutable)] struct TI(u32);
#[derive(Query)] struct DRo<'a> { a: &'a A, b: Option<&'a B> }
#[derive(Query)] struct DMut<'a> { a: &'a A, b: &'a mut B }
fn assert_send<X: Send>(_: &X) {}
fn assert_sync<X: Sync>(_: &X) {}
fn assert_send_t<X: Send>() {}
fn assert_sync_t<X: Sync>() {}
fn main() {
    let mut world = World::new();
    let id = world.spawn();
    BODY
}
'''


def rust_ty(code):
    from tools_family import _parse  # noqa
    ty, rest = _parse(code)
    assert rest == ""
    return ty.replace("K0", "A").replace("K1", "B")


def yields_mut(code):
    """does an item of this query type contain a mutable reference? (Not / With / Has hand out nothing)"""
    i = 0
    depth_blocked = []

    def walk(s):
        c = s[0]
        if c == "r":
            return False, s[2:]
        if c == "m":
            return True, s[2:]
        if c in "EP":
            return False, s[1:]
        if c in "!WH":
            _, rest = walk(s[1:])
            return False, rest
        if c == "?":
            return walk(s[1:])
        if c in "OX":
            a, rest = walk(s[2:])
            b, rest = walk(rest[1:])
            return a or b, rest[1:]
        if c == "(":
            if s[1] == ")":
                return False, s[2:]
            rest = s[1:]
            res = False
            while True:
                a, rest = walk(rest)
                res = res or a
                if rest[0] == ",":
                    rest = rest[1:]
                    continue
                return res, rest[1:]
        raise ValueError(s)

    return walk(code)[0]


RO_CODES = ["r0", "m0", "?r0", "?m0", "O<r0|r1>", "O<r0|m1>", "O<m0|r1>", "X<r0|r1>", "X<m0|r1>", "X<r0|m1>", "(r0,r1)", "(r0,m1)",
            "(m0,r1)", "!m0", "Wm0", "Hm0", "!r0", "E", "P", "()", "(E,?r0)", "(E,?m0)", "?O<r0|m1>", "O<?r0|r1>", "(r0,!m1)",
            "(r0,Wm1,Hm0)", "?(r0,m1)", "?(r0,r1)", "X<(r0,r1)|m0>", "O<(r0,r1)|!m0>", "(m0,)", "(r0,)", "O<X<r0|m1>|r1>", "?!m0"]


def twin_table(tier):
    """-> list of dict(name, body, must_compile, gate)   `gate`: ("ro", code) asks the model's ReadOnlyQuery verdict"""
    T = []

    def add(name, body, must_compile, gate=None):
        T.append(dict(name=name, body=body, must_compile=must_compile, gate=gate))

    codes = RO_CODES if tier == "thorough" else RO_CODES[:22]
    for i, c in enumerate(codes):
        ty = rust_ty(c)
        ok = not yields_mut(c)
        h = f"world.add_handler(|_: Receiver<E>, f: Fetcher<{ty}>| {{ BODY2 }});"
        add(f"get[{c}]", h.replace("BODY2", "let _ = f.get(EntityId::NULL);"), ok, ("ro", c))
        if tier == "thorough" or i % 3 == 0:
            add(f"iter[{c}]", h.replace("BODY2", "for _ in f.iter() {}"), ok, ("ro", c))
            add(f"refiter[{c}]", h.replace("BODY2", "for _ in &f {}"), ok, ("ro", c))
            add(f"clone[{c}]", f"world.add_handler(|_: Receiver<E>, mut f: Fetcher<{ty}>| {{ let it = f.iter_mut(); let _ = it.clone(); }});", ok, ("ro", c))
        # the exclusive-borrow twins always compile
        add(f"get_mut[{c}]", f"world.add_handler(|_: Receiver<E>, mut f: Fetcher<{ty}>| {{ let _ = f.get_mut(EntityId::NULL); for _ in f.iter_mut() {{}} }});", True)
    add("derive-ro.get", "world.add_handler(|_: Receiver<E>, f: Fetcher<DRo>| { let _ = f.get(EntityId::NULL); for _ in f.iter() {} });", True, ("flag", "derive_inner"))
    add("derive-mut.get", "world.add_handler(|_: Receiver<E>, f: Fetcher<DMut>| { let _ = f.get(EntityId::NULL); });", False, ("flag", "derive_inner"))
    add("derive-mut.get_mut", "world.add_handler(|_: Receiver<E>, mut f: Fetcher<DMut>| { let _ = f.get_mut(EntityId::NULL); });", True)
    # immutable components
    add("immut-comp.query-mut", "world.add_handler(|_: Receiver<E>, f: Fetcher<&mut I>| {});", False, ("flag", "mut_needs_mutable"))
    add("immut-comp.query-ref", "world.add_handler(|_: Receiver<E>, f: Fetcher<&I>| {});", True)
    add("immut-comp.single-mut", "world.add_handler(|_: Receiver<E>, f: Single<&mut I>| {});", False, ("flag", "mut_needs_mutable"))
    add("immut-comp.opt-mut", "world.add_handler(|_: Receiver<E>, f: Fetcher<(EntityId, Option<&mut I>)>| {});", False, ("flag", "mut_needs_mutable"))
    add("immut-comp.recv-mut", "world.add_handler(|_: Receiver<T, &mut I>| {});", False, ("flag", "mut_needs_mutable"))
    add("immut-comp.recv-ref", "world.add_handler(|_: Receiver<T, &I>| {});", True)
    add("immut-comp.get_mut", "let _ = world.get_mut::<I>(id);", False, ("flag", "world_get_mut_needs_mutable"))
    add("immut-comp.get", "let _ = world.get::<I>(id);", True)
    add("mut-comp.get_mut", "let _ = world.get_mut::<A>(id);", True)
    add("immut-comp.insert", "world.insert(id, I(1)); world.remove::<I>(id);", True)
    # the `immutable` marker among other attributes (doc comments are attributes too): position must not matter
    decls = {
        "doc-before": "/// documented\n#[derive(Component)]\n/// more\n#[component(immutable)]\nstruct I2(u32);",
        "allow-before": "#[derive(Component)] #[allow(dead_code)] #[component(immutable)] struct I2(u32);",
        "repr-before": "#[derive(Component)] #[repr(C)] #[component(immutable)] struct I2(u32);",
        "derive-before": "#[derive(Component)] #[derive(Debug)] #[component(immutable)] struct I2(u32);",
        "attr-after": "#[derive(Component)] #[component(immutable)] #[allow(dead_code)] #[repr(C)] struct I2(u32);",
        "outer-before": "#[allow(dead_code)] #[repr(C)] /// doc\n#[derive(Component)] #[component(immutable)] struct I2(u32);",
    }
    for k, d in decls.items():
        add(f"immut-comp.{k}.get_mut", d + " let _ = world.get_mut::<I2>(id);", False)
        add(f"immut-comp.{k}.query-mut", d + " world.add_handler(|_: Receiver<E>, f: Fetcher<&mut I2>| {});", False)
        add(f"immut-comp.{k}.get", d + " let _ = world.get::<I2>(id); world.add_handler(|_: Receiver<E>, f: Fetcher<&I2>| {});", True)
    edecls = {
        "doc-before": ("/// documented\n#[derive(GlobalEvent)]\n/// more\n#[event(immutable)]\nstruct EI2(u32);", "/// d\n#[derive(TargetedEvent)]\n/// d\n#[event(immutable)]\nstruct TI2(u32);"),
        "allow-before": ("#[derive(GlobalEvent)] #[allow(dead_code)] #[event(immutable)] struct EI2(u32);", "#[derive(TargetedEvent)] #[allow(dead_code)] #[event(immutable)] struct TI2(u32);"),
        "attr-after": ("#[derive(GlobalEvent)] #[event(immutable)] #[allow(dead_code)] struct EI2(u32);", "#[derive(TargetedEvent)] #[event(immutable)] #[repr(C)] struct TI2(u32);"),
    }
    for k, (g, t) in edecls.items():
        add(f"immut-ev.{k}.recvmut-global", g + " world.add_handler(|_: ReceiverMut<EI2>| {});", False)
        add(f"immut-ev.{k}.recv-global", g + " world.add_handler(|_: Receiver<EI2>| {}); world.send(EI2(1));", True)
        add(f"immut-ev.{k}.recvmut-targeted", t + " world.add_handler(|_: ReceiverMut<TI2, ()>| {});", False)
        add(f"immut-ev.{k}.recv-targeted", t + " world.add_handler(|_: Receiver<TI2, ()>| {}); world.send_to(id, TI2(1));", True)
    # immutable events
    add("immut-ev.recvmut-global", "world.add_handler(|_: ReceiverMut<EI>| {});", False, ("flag", "recvmut_global_needs_mutable"))
    add("immut-ev.recv-global", "world.add_handler(|_: Receiver<EI>| {});", True)
    add("mut-ev.recvmut-global", "world.add_handler(|r: ReceiverMut<E>| { let _e: E = EventMut::take(r.event); });", True)
    add("immut-ev.recvmut-targeted", "world.add_handler(|_: ReceiverMut<TI, ()>| {});", False, ("flag", "recvmut_targeted_needs_mutable"))
    add("immut-ev.recv-targeted", "world.add_handler(|_: Receiver<TI, ()>| {});", True)
    add("mut-ev.recvmut-targeted", "world.add_handler(|mut r: ReceiverMut<T, ()>| { r.event.0 += 1; let _e: T = EventMut::take(r.event); });", True)
    add("take-through-receiver", "world.add_handler(|r: Receiver<E>| { let _e: E = EventMut::take(r.event); });", False, ("flag", "take_only_on_eventmut"))
    add("mutate-through-receiver", "world.add_handler(|r: Receiver<E>| { r.event.0 += 1; });", False, ("flag", "take_only_on_eventmut"))
    add("spawn-event-immutable", "world.add_handler(|r: ReceiverMut<Spawn>| {});", False, ("flag", "recvmut_global_needs_mutable"))
    add("spawn-event-receiver", "world.add_handler(|r: Receiver<Spawn>| {});", True)
    add("send-immutable-event", "world.send(EI(1)); world.send_to(id, TI(1));", True)
    # thread safety
    add("world-send", "assert_send_t::<World>();", False, ("flag", "world_not_send_marker"))
    add("world-sync", "assert_sync_t::<World>();", False, ("flag", "world_not_send_marker"))
    add("world-move-thread", "std::thread::spawn(move || { let _w = world; });", False, ("flag", "world_not_send_marker"))
    add("entityid-send", "assert_send_t::<EntityId>(); assert_sync_t::<EntityId>();", True)
    add("fetcher-send-rc", "world.add_handler(|_: Receiver<E>, f: Fetcher<&R>| { assert_send(&f); });", False, ("flag", "fetcher_send_iff_item"))
    add("fetcher-sync-rc", "world.add_handler(|_: Receiver<E>, f: Fetcher<&R>| { assert_sync(&f); });", False, ("flag", "fetcher_sync_iff_item"))
    add("fetcher-send-plain", "world.add_handler(|_: Receiver<E>, f: Fetcher<&A>| { assert_send(&f); assert_sync(&f); });", True)
    add("fetcher-send-rc-mut", "world.add_handler(|_: Receiver<E>, f: Fetcher<&mut R>| { assert_send(&f); });", False, ("flag", "fetcher_send_iff_item"))
    add("fetcher-scope-rc", "world.add_handler(|_: Receiver<E>, f: Fetcher<&R>| { std::thread::scope(|s| { s.spawn(|| { let _ = &f; }); }); });", False, ("flag", "fetcher_sync_iff_item"))
    add("fetcher-scope-plain", "world.add_handler(|_: Receiver<E>, f: Fetcher<&A>| { std::thread::scope(|s| { s.spawn(|| { let _ = f.get(EntityId::NULL); }); }); });", True)
    add("iter-send-rc", "world.add_handler(|_: Receiver<E>, f: Fetcher<&R>| { let it = f.iter(); assert_send(&it); });", False, ("flag", "iter_send_iff_item"))
    add("iter-sync-rc", "world.add_handler(|_: Receiver<E>, f: Fetcher<&R>| { let it = f.iter(); assert_sync(&it); });", False, ("flag", "iter_sync_iff_item"))
    add("iter-send-plain", "world.add_handler(|_: Receiver<E>, f: Fetcher<&A>| { let it = f.iter(); assert_send(&it); assert_sync(&it); });", True)
    # data that is thread-safe in one direction only: `&mut X: Send` needs `X: Send`, `&X: Send` and `&X: Sync` need `X: Sync`
    add("iter-send-guard-mut", "world.add_handler(|_: Receiver<E>, mut f: Fetcher<&mut Gd>| { let it = f.iter_mut(); assert_send(&it); });", False, ("flag", "iter_send_iff_item"))
    add("iter-send-guard-ref", "world.add_handler(|_: Receiver<E>, f: Fetcher<&Gd>| { let it = f.iter(); assert_send(&it); assert_sync(&it); });", True)
    add("iter-move-guard-mut", "world.add_handler(|_: Receiver<E>, mut f: Fetcher<&mut Gd>| { let it = f.iter_mut(); std::thread::scope(|s| { s.spawn(move || { for _ in it {} }); }); });", False, ("flag", "iter_send_iff_item"))
    add("iter-move-plain-mut", "world.add_handler(|_: Receiver<E>, mut f: Fetcher<&mut A>| { let it = f.iter_mut(); std::thread::scope(|s| { s.spawn(move || { for _ in it {} }); }); });", True)
    add("iter-send-cell-ref", "world.add_handler(|_: Receiver<E>, f: Fetcher<&Cl>| { let it = f.iter(); assert_send(&it); });", False, ("flag", "iter_send_iff_item"))
    add("iter-sync-cell-ref", "world.add_handler(|_: Receiver<E>, f: Fetcher<&Cl>| { let it = f.iter(); assert_sync(&it); });", False, ("flag", "iter_sync_iff_item"))
    add("iter-send-cell-mut", "world.add_handler(|_: Receiver<E>, mut f: Fetcher<&mut Cl>| { let it = f.iter_mut(); assert_send(&it); });", True)
    add("fetcher-send-guard-mut", "world.add_handler(|_: Receiver<E>, f: Fetcher<&mut Gd>| { assert_send(&f); });", False, ("flag", "fetcher_send_iff_item"))
    add("fetcher-send-guard-ref", "world.add_handler(|_: Receiver<E>, f: Fetcher<&Gd>| { assert_send(&f); assert_sync(&f); });", True)
    add("fetcher-sync-cell-ref", "world.add_handler(|_: Receiver<E>, f: Fetcher<&Cl>| { assert_sync(&f); });", False, ("flag", "fetcher_sync_iff_item"))
    add("fetcher-send-cell-mut", "world.add_handler(|_: Receiver<E>, f: Fetcher<&mut Cl>| { assert_send(&f); });", True)
    add("eventmut-send-rc", "#[derive(GlobalEvent)] struct ER(std::rc::Rc<()>); world.add_handler(|r: ReceiverMut<ER>| { assert_send(&r.event); });", False, ("flag", "eventmut_send_iff_event"))
    add("eventmut-send-plain", "world.add_handler(|r: ReceiverMut<E>| { assert_send(&r.event); });", True)
    return T


def find_rlib(features=()):
    """the evenio rlib cargo uses for the harness's debug build with these features (asked from cargo itself: the deps
    directory may hold several builds of evenio with different feature sets)"""
    deps = os.path.join(CACHE, "target", "debug", "deps")
    cmd = ["cargo", "build", "--offline", "--message-format=json"] + (["--features", ",".join(features)] if features else [])
    try:
        p = subprocess.run(cmd, cwd=os.path.join(ROOT, "harness"), capture_output=True, text=True, timeout=1800,
                           env=dict(os.environ, CARGO_NET_OFFLINE="true"))
        found = None
        for line in p.stdout.split("\n"):
            if '"compiler-artifact"' not in line:
                continue
            try:
                m = json.loads(line)
            except Exception:
                continue
            if m.get("target", {}).get("name") == "evenio" and "lib" in m.get("target", {}).get("kind", []):
                for f in m.get("filenames", []):
                    if f.endswith(".rlib"):
                        found = f
        if found:
            return found, deps
    except Exception:
        pass
    if features:
        return None, deps
    cands = sorted(glob.glob(os.path.join(deps, "libevenio-*.rlib")), key=os.path.getmtime)
    return (cands[-1] if cands else None), deps


def rayon_twins():
    """the gates of parallel iteration (feature `rayon`): shared parallel iteration and cloning a parallel iterator need a
    read-only query, every parallel iterator needs Send items"""
    T = []

    def add(name, body, must_compile, flag):
        T.append(dict(name=name, body="use evenio::rayon::prelude::*; " + body, must_compile=must_compile, gate=("flag", flag), rayon=True))

    add("par-clone[m0]", "world.add_handler(|_: Receiver<E>, mut f: Fetcher<&mut A>| { let it = f.par_iter_mut(); let _ = it.clone(); });", False, "par_clone_gated")
    add("par-clone[r0]", "world.add_handler(|_: Receiver<E>, f: Fetcher<&A>| { let it = f.par_iter(); let it2 = it.clone(); it.for_each(|_| {}); it2.for_each(|_| {}); });", True, "par_clone_gated")
    add("par-clone[?m0]", "world.add_handler(|_: Receiver<E>, mut f: Fetcher<(EntityId, Option<&mut A>)>| { let it = (&mut f).into_par_iter(); let _ = it.clone(); });", False, "par_clone_gated")
    add("par-iter-shared[m0]", "world.add_handler(|_: Receiver<E>, f: Fetcher<&mut A>| { f.par_iter().for_each(|_| {}); });", False, "par_iter_gated")
    add("par-iter-shared[X<r0|m1>]", "world.add_handler(|_: Receiver<E>, f: Fetcher<Xor<&A, &mut B>>| { (&f).into_par_iter().for_each(|_| {}); });", False, "par_iter_gated")
    add("par-iter-shared[r0]", "world.add_handler(|_: Receiver<E>, f: Fetcher<&A>| { f.par_iter().for_each(|_| {}); (&f).into_par_iter().for_each(|_| {}); });", True, "par_iter_gated")
    add("par-iter-mut[m0]", "world.add_handler(|_: Receiver<E>, mut f: Fetcher<&mut A>| { f.par_iter_mut().for_each(|a| { a.0 += 1; }); });", True, "par_iter_gated")
    add("par-iter-owned[m0]", "world.add_handler(|_: Receiver<E>, f: Fetcher<&mut A>| { f.into_par_iter().for_each(|a| { a.0 += 1; }); });", True, "par_iter_gated")
    add("par-send[&Rc]", "world.add_handler(|_: Receiver<E>, f: Fetcher<&R>| { f.par_iter().for_each(|_| {}); });", False, "par_item_send")
    add("par-send[&mut Rc]", "world.add_handler(|_: Receiver<E>, mut f: Fetcher<&mut R>| { f.par_iter_mut().for_each(|_| {}); });", False, "par_item_send")
    add("par-send[&mut guard]", "world.add_handler(|_: Receiver<E>, mut f: Fetcher<&mut Gd>| { f.par_iter_mut().for_each(|_| {}); });", False, "par_item_send")
    add("par-send[&guard]", "world.add_handler(|_: Receiver<E>, f: Fetcher<&Gd>| { f.par_iter().for_each(|_| {}); });", True, "par_item_send")
    add("par-send[&cell]", "world.add_handler(|_: Receiver<E>, f: Fetcher<&Cl>| { f.par_iter().for_each(|_| {}); });", False, "par_item_send")
    add("par-send[&mut cell]", "world.add_handler(|_: Receiver<E>, mut f: Fetcher<&mut Cl>| { f.par_iter_mut().for_each(|_| {}); });", True, "par_item_send")
    add("par-send[owned &mut Rc]", "world.add_handler(|_: Receiver<E>, f: Fetcher<&mut R>| { f.into_par_iter().for_each(|_| {}); });", False, "par_item_send")
    return T


def compile_one(args):
    name, src, rlib, deps, outdir = args
    h = hashlib.sha256(name.encode()).hexdigest()[:12]
    path = os.path.join(outdir, f"t_{h}.rs")
    with open(path, "w") as fh:
        fh.write(src)
    cmd = ["rustc", "--edition", "2021", "--emit=metadata", "--crate-type", "bin", "--cap-lints", "allow",
           "-L", f"dependency={deps}", "--extern", f"evenio={rlib}", path, "-o", os.path.join(outdir, f"t_{h}.rmeta")]
    p = subprocess.run(cmd, capture_output=True, text=True)
    codes = sorted(set(re.findall(r"error\[(E\d+)\]", p.stderr)))
    first = ""
    m = re.search(r"error(\[E\d+\])?: ([^\n]*)", p.stderr)
    if m:
        first = m.group(2)[:160]
    return name, p.returncode == 0, codes, first, path


def model_gates(codes):
    from vt import run
    inp = "".join(f"gate {c}\n" for c in codes)
    p = subprocess.run([run.DRIVER], input=inp, capture_output=True, text=True)
    out = {}
    cur = None
    for line in p.stdout.split("\n"):
        if line.startswith("gate "):
            cur = line[5:]
        elif line.startswith("> readonly=") and cur is not None:
            out[cur] = line.endswith("true")
    return out


def gate_flags():
    txt = open(os.path.join(ROOT, "lean", "Evenio", "Generated", "Gates.lean")).read()
    return {m.group(1): m.group(2) == "true" for m in re.finditer(r"def (\w+) : Bool := (true|false)", txt)}


def check_c18(tier, seed, replay):
    sys.path.insert(0, os.path.join(ROOT, "tools"))
    import importlib.util
    spec = importlib.util.spec_from_file_location("tools_family", os.path.join(ROOT, "tools", "family.py"))
    mod = importlib.util.module_from_spec(spec)
    spec.loader.exec_module(mod)
    sys.modules["tools_family"] = mod
    from vt import build as chk
    t0 = time.time()
    with chk.Lock():
        tr = chk.step_extract()
        lean = chk.step_lean("C18", recheck=(tier == "thorough"))
        hok, hlog = chk.step_harness(["debug"])
    problems = []
    if not lean["driver"]:
        problems.append("the Lean model no longer builds: " + lean["log"][-800:])
    broken = [t for t, st in lean["theorems"].items() if st != "ok"]
    if broken:
        problems.append("theorems that no longer check: " + ", ".join(f"{t} ({lean['theorems'][t]})" for t in broken) + "\n" + lean["log"][-1200:])
    if lean["scan"]:
        problems.append("escape hatches: " + "; ".join(lean["scan"][:5]))
    if not hok:
        problems.append("harness/evenio does not build: " + hlog[-800:])
    rlib, deps = find_rlib()
    twins = twin_table(tier)
    # the gates of parallel iteration are compiled against a build of evenio with the `rayon` feature
    rlib_rayon, _ = find_rlib(("rayon",))
    if rlib_rayon:
        twins += rayon_twins()
    else:
        problems.append("evenio does not build with the `rayon` feature: the parallel-iteration gates were not exercised")
    outdir = os.path.join(CACHE, "twins")
    os.makedirs(outdir, exist_ok=True)
    results = {}
    if rlib:
        jobs = [(t["name"], PRELUDE.replace("BODY", t["body"]), (rlib_rayon if t.get("rayon") else rlib), deps, outdir) for t in twins]
        with concurrent.futures.ThreadPoolExecutor(max_workers=14) as ex:
            for name, ok, codes, first, path in ex.map(compile_one, jobs):
                results[name] = (ok, codes, first, path)
    else:
        problems.append("no evenio rlib found")
    flags = gate_flags()
    ro = model_gates(sorted({t["gate"][1] for t in twins if t["gate"] and t["gate"][0] == "ro"})) if lean["driver"] else {}
    violations, disagreements = [], []
    for t in twins:
        if t["name"] not in results:
            continue
        ok, codes, first, path = results[t["name"]]
        if ok != t["must_compile"]:
            violations.append((t, ok, codes, first, path))
        if t["gate"]:
            kind, key = t["gate"]
            if kind == "ro":
                model_ok = ro.get(key)
            else:
                # the flag says the gate is in place; then the forbidden program is rejected and its twin accepted
                model_ok = t["must_compile"] if flags.get(key, False) else True
            if model_ok is not None and model_ok != ok:
                disagreements.append((t, model_ok, ok))
    rc = 0
    os.makedirs(os.path.join(ROOT, "replays"), exist_ok=True)
    for t, ok, codes, first, path in violations[:5]:
        rp = os.path.join(ROOT, "replays", "C18-" + re.sub(r"[^A-Za-z0-9]", "_", t["name"]) + ".rs")
        with open(rp, "w") as fh:
            fh.write(f"// property C18: this program must {'compile' if t['must_compile'] else 'NOT compile'}; rustc says: {'compiles' if ok else 'rejected ' + ','.join(codes) + ' ' + first}\n")
            fh.write(PRELUDE.replace("BODY", t["body"]))
        print(f"VIOLATION property=C18 replay={os.path.relpath(rp, ROOT)}")
        print(f"  `{t['name']}` must {'compile' if t['must_compile'] else 'be rejected'} but rustc {'accepts it' if ok else 'rejects it: ' + first}")
        rc = 1
    if not violations and (problems or disagreements):
        rp = os.path.join(ROOT, "replays", "C18-unproved.txt")
        with open(rp, "w") as fh:
            for p in problems:
                fh.write("# " + p.replace("\n", "\n# ") + "\n")
            for t, m, ok in disagreements:
                fh.write(f"# gate table vs rustc: `{t['name']}` model says {'compiles' if m else 'rejected'}, rustc {'compiles' if ok else 'rejects'}\n")
        print(f"VIOLATION property=C18 replay={os.path.relpath(rp, ROOT)} no-failing-input-found")
        for p in problems[:3]:
            print("  " + p[:800].replace("\n", "\n  "))
        for t, m, ok in disagreements[:5]:
            print(f"  gate table vs rustc: `{t['name']}` model says {'compiles' if m else 'rejected'}, rustc {'compiles' if ok else 'rejects'}")
        rc = 1
    obl = lean["theorems"]
    ev = {
        "property_id": "C18", "tier": tier, "seed": seed, "level": "proof",
        "coverage": {
            "obligations": len(obl), "discharged": sum(1 for s in obl.values() if s == "ok"),
            "checker_cmd": "cd lean && lake build Evenio.Props.C18 && lake env lean <#print axioms of every listed theorem>",
            "trusted_base": ["Lean 4.33 kernel", "axioms allowed: propext, Classical.choice, Quot.sound",
                             "tools/extract.py: regenerates the ReadOnlyQuery / Mutability / Send-Sync gate table from the marker impls",
                             "rustc's trait solver is NOT modelled: it is the implementation side of the correspondence (twin programs)"],
            "theorems": obl, "translator": tr,
            "programs": len(results), "disagreements_checked": len(disagreements),
            "evaluations": len(results),
            "distinct_nontrivial": len({t["body"] for t in twins if not t["must_compile"] and t["name"] in results}),
            "rule": "every member of the twin family is compiled against /repo's current build with rustc --emit=metadata; non-trivial = a program the property says must be rejected",
            "samples": [{"name": t["name"], "body": t["body"], "must_compile": t["must_compile"],
                         "rustc": "ok" if results[t["name"]][0] else "rejected " + ",".join(results[t["name"]][1])} for t in twins[:4] if t["name"] in results],
            "rejected_with": sorted({c for r in results.values() for c in r[1]}),
        },
        "assumptions": ["rustc's verdicts on the twin family are representative of the gate impls extracted from the source"],
        "wall_s": round(time.time() - t0, 2), "violations": len(violations) + (1 if rc and not violations else 0),
    }
    if not replay:
        os.makedirs(os.path.join(ROOT, "evidence"), exist_ok=True)
        json.dump(ev, open(os.path.join(ROOT, "evidence", "C18.json"), "w"), indent=1)
    print(f"C18 {tier}: {len(results)} programs, {len(violations)} violations, {len(disagreements)} gate disagreements, "
          f"{ev['coverage']['discharged']}/{len(obl)} theorems, {ev['wall_s']}s rc={rc}")
    return rc


def check(prop, tier, seed, replay):
    if prop == "C18":
        return check_c18(tier, seed, replay)
    from vt import par
    return par.check_c19(tier, seed, replay)
