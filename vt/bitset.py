"""Component correspondence for the crate's internal bit set (src/bit_set.rs; used for a handler's sent-event sets and
referenced components, i.e. for deciding which handlers go when an event or component type is removed: C14, C15).

Scripts of set operations on two registers are run through the real code (hook `World::verif_bitset_script`, harness mode
`hx --bitset`) and through the Lean model `Evenio.BitSet` (driver mode `--bitset`), whose refinement to a finite set is
proved in lean/Evenio/Proofs/BitSet.lean; the two outputs are compared line by line.  An independent set-based oracle
(`oracle`) says which side is wrong when they differ (only for the operations with a set-level meaning)."""
import random, subprocess

from .run import DRIVER, hx_path

EDGE = [0, 1, 2, 31, 32, 62, 63, 64, 65, 66, 126, 127, 128, 129, 191, 192, 193, 255, 256, 300, 511, 512, 1000, 1001]


def gen_script(seed, n=60):
    r = random.Random(seed)
    hot = r.sample(EDGE, r.randint(3, 8)) + [r.randrange(700) for _ in range(r.randint(0, 3))]

    def val():
        return r.choice(hot) if r.random() < 0.8 else r.choice(EDGE + [r.randrange(1100)])

    ops = []
    for _ in range(n):
        x = r.random()
        a, b = r.choice([("A", "B"), ("B", "A")])
        if x < 0.30:
            ops.append(f"ins {a} {val()}")
        elif x < 0.42:
            ops.append(f"rem {a} {val()}")
        elif x < 0.57:
            ops.append(f"has {a} {val()}")
        elif x < 0.67:
            ops.append(f"iter {a}")
        elif x < 0.71:
            ops.append(f"len {a}")
        elif x < 0.74:
            ops.append(f"empty {a}")
        elif x < 0.78:
            ops.append(f"nblocks {a}")
        elif x < 0.82:
            ops.append(f"or {a} {b}")
        elif x < 0.86:
            ops.append(f"xor {a} {b}")
        elif x < 0.90:
            ops.append(f"disj {a} {b}")
        elif x < 0.94:
            ops.append(f"cmp {a} {b}")
        elif x < 0.97:
            ops.append(f"eq {a} {b}")
        elif x < 0.99:
            ops.append(f"shrink {a}")
        else:
            ops.append(f"clear {a}")
    return ops


def oracle(ops):
    """set semantics; None where the operation has no set-level meaning (nblocks, cmp)"""
    regs = {"A": set(), "B": set()}
    out = []
    for op in ops:
        t = op.split(" ")
        x = regs[t[1]]
        y = regs[t[2]] if len(t) > 2 and t[2] in regs else None
        k = t[0]
        if k == "ins":
            v = int(t[2]); out.append(str(v not in x).lower()); x.add(v)
        elif k == "rem":
            v = int(t[2]); out.append(str(v in x).lower()); x.discard(v)
        elif k == "has":
            out.append(str(int(t[2]) in x).lower())
        elif k == "iter":
            out.append("[" + ",".join(str(v) for v in sorted(x)) + "]")
        elif k == "len":
            out.append(str(len(x)))
        elif k == "empty":
            out.append(str(not x).lower())
        elif k == "or":
            x |= y; out.append("ok")
        elif k == "xor":
            x ^= y; out.append("ok")
        elif k == "disj":
            out.append(str(not (x & y)).lower())
        elif k == "eq":
            out.append(str(x == y).lower())
        elif k in ("shrink", "clear"):
            if k == "clear":
                x.clear()
            out.append("ok")
        else:
            out.append(None)
    return out


def _run(cmd, scripts):
    inp = "".join(f"=== {name}\n" + "\n".join(ops) + "\n" for name, ops in scripts)
    p = subprocess.run(cmd, input=inp, capture_output=True, text=True, timeout=300)
    if p.returncode != 0:
        raise RuntimeError(f"{cmd[0]} failed rc={p.returncode}: {p.stderr[:300]}")
    res, cur = {}, None
    for line in p.stdout.split("\n"):
        if line.startswith("=== "):
            cur = line[4:]
            res[cur] = []
        elif cur is not None and line != "":
            res[cur].append(line)
    return res


def check(tier, seed, builds=("debug", "release")):
    """-> (stats, differences); a difference is (script name, build, op index, op, implementation, model, oracle)"""
    n = 300 if tier == "quick" else 6000
    scripts = [(f"bs-{(seed * 1000003 + i) & 0x7FFFFFFF}", gen_script((seed * 1000003 + i) & 0x7FFFFFFF, n=60 if i % 4 else 200)) for i in range(n)]
    model = _run([DRIVER, "--bitset"], scripts)
    diffs = []
    wrong_impl = 0
    for b in builds:
        impl = _run([hx_path(b), "--bitset"], scripts)
        for name, ops in scripts:
            io, mo = impl.get(name, []), model.get(name, [])
            orc = oracle(ops)
            for i, op in enumerate(ops):
                iv = io[i] if i < len(io) else "<missing>"
                mv = mo[i] if i < len(mo) else "<missing>"
                if orc[i] is not None and iv != orc[i]:
                    wrong_impl += 1
                if iv != mv:
                    diffs.append((name, b, i, op, iv, mv, orc[i]))
                    break
    stats = dict(scripts=len(scripts), operations=sum(len(o) for _, o in scripts), builds=list(builds),
                 implementation_outputs_contradicting_set_semantics=wrong_impl)
    return stats, diffs
