"""C19: the real `ParIter` on rayon pools of every size vs sequential iteration (the implementation side; the theorem is
about every split tree over the modelled producer)."""
import json, os, random, re, subprocess, sys, time

ROOT = os.path.abspath(os.path.join(os.path.dirname(os.path.abspath(__file__)), ".."))


def check_c19(tier, seed, replay):
    from vt import build as chk
    t0 = time.time()
    with chk.Lock():
        tr = chk.step_extract()
        lean = chk.step_lean("C19", recheck=(tier == "thorough"))
        hok, hlog = chk.step_harness(["release"], features=("rayon",))
    problems = []
    broken = [t for t, st in lean["theorems"].items() if st != "ok"]
    if broken:
        problems.append("theorems that no longer check: " + ", ".join(f"{t} ({lean['theorems'][t]})" for t in broken) + "\n" + lean["log"][-1200:])
    if lean["scan"]:
        problems.append("escape hatches: " + "; ".join(lean["scan"][:5]))
    if not hok:
        problems.append("harness does not build with the rayon feature: " + hlog[-800:])
    r = random.Random(seed)
    ncpu = os.cpu_count() or 16
    pools = [1, 2, 4, ncpu] if tier == "quick" else list(range(1, ncpu + 1))
    nworlds = 12 if tier == "quick" else 120
    lines = []
    if replay:
        lines = [l.strip() for l in open(replay) if l.startswith("par ")]
    else:
        for i in range(nworlds):
            rows = [r.choice([0, 0, 1, 2, 3, 7, 64, 100, 1000, 4097]) for _ in range(8)]
            if tier == "thorough" and i % 10 == 0:
                rows[r.randrange(8)] = 20000
            s = r.randrange(1 << 30)
            for p in pools:
                lines.append(f"par {s} {p} " + " ".join(map(str, rows)))
    out = ""
    if hok:
        exe = os.path.join(chk.CACHE, "target", "release", "hx")
        p = subprocess.run([exe, "--par"], input="\n".join(lines) + "\n", capture_output=True, text=True, timeout=3000)
        out = p.stdout
        if p.returncode != 0:
            problems.append(f"harness exited with {p.returncode}: {p.stderr[-400:]}")
    violations = []
    cur = None
    nobs = 0
    distinct = set()
    samples = []
    for l in out.split("\n"):
        if l.startswith("par "):
            cur = l
        elif l.startswith("> ") and cur:
            nobs += 1
            bad = False
            m = re.search(r"seq=(\d+) par=(\d+) dup=(\d+) missing=(\d+) extra=(\d+)", l)
            if m:
                a = list(map(int, m.groups()))
                bad = a[0] != a[1] or a[2] or a[3] or a[4]
                if a[0] > 1:
                    distinct.add((cur.split(" ", 3)[3], l.split(" ")[1]))
            m = re.search(r"writes_bad=(\d+)", l)
            if m and int(m.group(1)):
                bad = True
            m = re.search(r"q=own.* dup=(\d+)", l)
            if m and int(m.group(1)):
                bad = True
            if "k1_written_once=false" in l:
                bad = True
            if bad:
                violations.append((cur, l))
            if len(samples) < 4:
                samples.append({"input": cur, "observation": l[2:]})
    rc = 0
    os.makedirs(os.path.join(ROOT, "replays"), exist_ok=True)
    for i, (cur, l) in enumerate(violations[:3]):
        rp = os.path.join(ROOT, "replays", f"C19-{i}.txt")
        with open(rp, "w") as fh:
            fh.write(f"#! property=C19\n# {l}\n{cur}\n")
        print(f"VIOLATION property=C19 replay={os.path.relpath(rp, ROOT)}")
        print(f"  {cur}: {l}")
        rc = 1
    if not violations and problems:
        rp = os.path.join(ROOT, "replays", "C19-unproved.txt")
        with open(rp, "w") as fh:
            for p in problems:
                fh.write("# " + p.replace("\n", "\n# ") + "\n")
        print(f"VIOLATION property=C19 replay={os.path.relpath(rp, ROOT)} no-failing-input-found")
        for p in problems[:3]:
            print("  " + p[:800].replace("\n", "\n  "))
        rc = 1
    obl = lean["theorems"]
    ev = {
        "property_id": "C19", "tier": tier, "seed": seed, "level": "proof",
        "coverage": {
            "obligations": len(obl), "discharged": sum(1 for s in obl.values() if s == "ok"),
            "checker_cmd": "cd lean && lake build Evenio.Props.C19 && lake env lean <#print axioms of every listed theorem>",
            "trusted_base": ["Lean 4.33 kernel", "axioms allowed: propext, Classical.choice, Quot.sound",
                             "rayon is trusted to realise some split tree of the producer and to run every leaf exactly once; its schedules are exercised, not proved"],
            "theorems": obl, "translator": tr,
            "evaluations": len(lines), "distinct_nontrivial": len(distinct),
            "rule": "worlds with random populations of the 8 archetypes over K0,K1,K2 (0..20000 rows, removals in the middle), five queries incl. zero-sized arch state and two mutable ones, every pool size listed; non-trivial = a (population, query) with more than one matching entity",
            "samples": samples or [{"note": "no output"}], "pool_sizes": pools, "observations": nobs,
        },
        "assumptions": ["run-time work-stealing schedules are sampled by repetition over pool sizes, not enumerated"],
        "wall_s": round(time.time() - t0, 2), "violations": len(violations) + (1 if rc and not violations else 0),
    }
    if not replay:
        os.makedirs(os.path.join(ROOT, "evidence"), exist_ok=True)
        json.dump(ev, open(os.path.join(ROOT, "evidence", "C19.json"), "w"), indent=1)
    print(f"C19 {tier}: {len(lines)} runs, {nobs} observations, {len(violations)} violations, {ev['coverage']['discharged']}/{len(obl)} theorems, {ev['wall_s']}s rc={rc}")
    return rc
