"""Judges: decide, from the implementation's own observations of a history, whether a property is violated.

Two kinds:
  * direct predicates — need no model at all (duplicate ids, a serial destroyed twice, a crash, …);
  * canonical comparison — the implementation's observations on the property's channels differ from the proved model's
    after everything incidental (registry indices, slab order, …) has been projected away.
A judge only says "violated" when the replay demonstrates it; when it cannot tell, the check falls back to the
`no-failing-input-found` form.
"""
import re
from . import run, oracle

DOCUMENTED_PANICS = ("user", "single", "noteventset", "capacity", "invalidindex")


class Finding:
    def __init__(self, prop, op_index, signature, what):
        self.prop, self.op_index, self.signature, self.what = prop, op_index, signature, what

    def __repr__(self):
        return f"{self.prop}@{self.op_index}:{self.signature}:{self.what}"


def lines_of(obs, prefix):
    return [l for l in obs if l.startswith(prefix)]


def f8_taint_index(ops):
    """first op after which a reservation is left pending by a panic (known finding F8)"""
    for i, (op, obs) in enumerate(ops):
        if any(l.startswith("panic ") for l in obs):
            for l in lines_of(obs, "pend "):
                m = re.search(r"res=(\d+)", l)
                if m and int(m.group(1)) > 0:
                    return i
    return None


def direct(prop, ops):
    """-> [Finding] from the implementation's observations alone"""
    out = []
    taint = f8_taint_index(ops)

    def sig(i, base):
        return ("F8:" + base) if (taint is not None and i >= taint) else base

    if prop == "C01":
        for i, (op, obs) in enumerate(ops):
            for l in obs:
                if l.startswith("exit "):
                    out.append(Finding(prop, i, sig(i, "crash"), f"process died: {l}"))
                if l.startswith("panic "):
                    cls = l[6:]
                    if not cls.startswith(DOCUMENTED_PANICS) or cls.startswith("internal"):
                        out.append(Finding(prop, i, sig(i, "undocumented-panic"), l))
                if "MISALIGNED" in l:
                    out.append(Finding(prop, i, sig(i, "misaligned"), l))
                if "!lenbad" in l:
                    out.append(Finding(prop, i, sig(i, "lenbad"), l))
    if prop in ("C01", "C03"):
        # a world-level `spawn` that ends in a (documented) panic - a handler of its Spawn event panicking - never
        # returns the id, so at most one live entity per such operation is unknown to the harness; it legitimately
        # answers to an id one generation off a known one
        unknown_ok = 0
        for i, (op, obs) in enumerate(ops):
            if op == "spawn" and any(l.startswith("panic ") for l in obs):
                unknown_ok += 1
            for l in lines_of(obs, "pr "):
                try:
                    n = int(l[3:].strip() or "0")
                except ValueError:
                    continue
                if n > unknown_ok:
                    out.append(Finding(prop, i, sig(i, "hand-made-id-valid"), f"{n} hand-made entity ids (neighbouring generations of issued ids) are valid"
                                       + (f" ({unknown_ok} explained by spawns that panicked before returning their id)" if unknown_ok else "")))
            # an entity nobody was told about: more live entities than ids handed out (returned, announced or reserved)
            st = lines_of(obs, "st ")
            if st and "?" not in st[0]:
                m = re.match(r"st n=(\d+)", st[0])
                if m:
                    live_known = len(re.findall(r"#\d+=\{", st[0]))
                    if int(m.group(1)) > live_known + unknown_ok:
                        out.append(Finding(prop, i, sig(i, "phantom-entity"), f"{m.group(1)} live entities but only {live_known} live ids were ever handed out"
                                           + (f" (+{unknown_ok} spawns that panicked before returning)" if unknown_ok else "") + f": {st[0][:120]}"))
    if prop == "C03":
        seen = {}
        for i, (op, obs) in enumerate(ops):
            for l in lines_of(obs, "id e "):
                k = l[5:]
                if " DUP#" in k:
                    # the harness itself saw World::spawn return an id it already knew (returned earlier, or handed to a
                    # handler by Sender::spawn / a Spawn event).  Not attributed to F8: a leaked reservation makes later
                    # spawns create surplus entities, it never makes an id come back (round-8 change C03_X_1).
                    out.append(Finding(prop, i, "duplicate-id", f"spawn returned {k.split(' ')[0]}, which was handed out before as {k.split('DUP')[1]}"))
                    continue
                if k in seen:
                    out.append(Finding(prop, i, sig(i, "duplicate-id"), f"spawn returned {k} again (first at op {seen[k]})"))
                seen[k] = i
        # live count = created - removed is checked through the store channel against the model
        # dead ids stay dead: an ordinal shown dead must never be shown alive later
        dead = set()
        for i, (op, obs) in enumerate(ops):
            if op.startswith("setgen"):
                dead.clear()      # the hook renames a live entity
                continue
            for l in lines_of(obs, "st "):
                for m in re.finditer(r"(#\d+)=(\S+)", l):
                    if m.group(2) == "x":
                        dead.add(m.group(1))
                    elif m.group(1) in dead:
                        out.append(Finding(prop, i, sig(i, "resurrected"), f"{m.group(1)} was dead and is alive again"))
    if prop == "C03":
        # an id stays valid until its entity is despawned: an entity shown alive before an operation and dead after it must
        # have been despawned by that operation (the top-level despawn, the removal of a component type it had, or a handler
        # that ran in it and can despawn - or, inside a component removal, can give the component to a bystander).  Judged
        # only where the `st` lines name every live entity.
        bodies = {}
        prev = None
        for i, (op, obs) in enumerate(ops):
            if op.startswith("addh "):
                f = dict(t.split("=", 1) for t in op.split(" ")[1:] if "=" in t)
                bodies[f.get("name", "")] = f.get("body", "")
            st = lines_of(obs, "st ")
            cur = st[0] if st and store_complete(st[0]) else None
            if op.startswith(("setgen", "drop")):
                prev = None
                continue
            if prev is not None and cur is not None:
                before = oracle.parse_store(prev)
                after = oracle.parse_store(cur)
                ran = {l.split(" ")[2] for l in obs if l.startswith("t h ") and len(l.split(" ")) > 2}
                acts = ",".join(bodies.get(h, "despawn,ins:") for h in ran)      # an unknown handler could do anything
                for ent, vals in before.items():
                    if ent in after or f"{ent}=x" not in cur:
                        continue
                    if op == f"despawn {ent}":
                        continue
                    m = re.match(r"rmc K(\d+)$", op)
                    if m and int(m.group(1)) in vals:
                        continue
                    if "despawn" in acts or (m and "ins:" in acts):
                        continue
                    out.append(Finding(prop, i, sig(i, "vanished"), f"{ent} was alive before `{op}` and is dead after it, and nothing despawned it"))
            prev = cur
    if prop in ("C11", "C13"):
        seen = {}
        for i, (op, obs) in enumerate(ops):
            for l in lines_of(obs, "ed"):
                for s in l.split()[1:]:
                    if s in seen:
                        out.append(Finding(prop, i, sig(i, "event-destroyed-twice"), f"event s{s} destroyed at op {seen[s]} and again at op {i}"))
                    seen[s] = i
    if prop in ("C11", "C13"):
        # when a top-level call returns (or unwinds) no event value is alive inside the world
        for i, (op, obs) in enumerate(ops):
            for l in lines_of(obs, "live "):
                m = re.search(r"E=(-?\d+)", l)
                if m and int(m.group(1)) != 0:
                    out.append(Finding(prop, i, sig(i, "event-alive-after-return"), f"{m.group(1)} event value(s) alive after `{op}` returned ({l})"))
    if prop in ("C12", "C13"):
        # after the world is dropped every component value with a destructor has been destroyed; never more drops than values
        for i, (op, obs) in enumerate(ops):
            for l in lines_of(obs, "live "):
                vals = {k: int(v) for k, v in re.findall(r"(K\d)=(-?\d+)", l)}
                if any(v < 0 for v in vals.values()):
                    out.append(Finding(prop, i, sig(i, "component-destroyed-twice"), f"more destructor calls than values: {l}"))
                if op == "drop" and any(v != 0 for v in vals.values()):
                    out.append(Finding(prop, i, sig(i, "component-leaked"), f"component values alive after the world was dropped: {l}"))
    if prop in ("C12", "C13"):
        seen = {}
        for i, (op, obs) in enumerate(ops):
            for l in lines_of(obs, "cd"):
                for s in l.split()[1:]:
                    if ":s" in s:
                        if s in seen:
                            out.append(Finding(prop, i, sig(i, "component-destroyed-twice"), f"{s} destroyed at op {seen[s]} and again at op {i}"))
                        seen[s] = i
                    if "MISALIGNED" in s:
                        out.append(Finding(prop, i, sig(i, "misaligned"), s))
    if prop == "C06":
        for i, (op, obs) in enumerate(ops):
            for l in obs:
                if "!lenbad" in l:
                    out.append(Finding(prop, i, sig(i, "lenbad"), l))
    if prop == "C16":
        for i, (op, obs) in enumerate(ops):
            for l in lines_of(obs, "reg "):
                m = re.search(r"stale=(\d+)", l)
                if m and int(m.group(1)) > 0:
                    out.append(Finding(prop, i, sig(i, "stale-id-valid"), l[-40:]))
    if prop == "C16":
        # ids of components / events / handlers: once an id has been seen and is gone, it is never handed out again
        seen = {"c": {}, "e": {}, "h": {}}
        for i, (op, obs) in enumerate(ops):
            for l in lines_of(obs, "reg "):
                m = re.match(r"reg c:(\S*) e:(\S*) h:(\S*) stale=", l)
                if not m:
                    continue
                for kind, part in zip("ceh", m.groups()):
                    cur = dict(x.split("=") for x in part.split(",") if "=" in x)
                    if kind == "e":
                        # global and targeted events are two registries
                        pass
                    for name, ident in cur.items():
                        reg = kind if kind != "e" else ("t" if (name[0] == "T" or name == "Despawn" or name.startswith(("InsK", "RemK"))) else "g")
                        hist = seen.setdefault(reg, {})
                        prev = hist.get(ident)
                        if prev is not None and prev[1]:
                            out.append(Finding(prop, i, sig(i, "id-reissued"), f"id {ident} of removed {prev[0]} handed out again to {name}"))
                        hist[ident] = (name, False)
                    for reg, hist in seen.items():
                        pass
                # mark ids that are no longer present as removed
                present = set()
                for kind, part in zip("ceh", m.groups()):
                    for x in part.split(","):
                        if "=" in x:
                            name, ident = x.split("=")
                            reg = kind if kind != "e" else ("t" if (name[0] == "T" or name == "Despawn" or name.startswith(("InsK", "RemK"))) else "g")
                            present.add((reg, ident))
                for reg, hist in seen.items():
                    for ident, (name, gone) in list(hist.items()):
                        if (reg, ident) not in present:
                            hist[ident] = (name, True)
    if prop == "C17":
        for i, (op, obs) in enumerate(ops):
            for l in lines_of(obs, "pend "):
                m = re.search(r"res=(\d+) queue=(\d+)", l)
                if m and (int(m.group(1)) > 0 or int(m.group(2)) > 0):
                    out.append(Finding(prop, i, sig(i, "pending-at-quiescence"), l))
            snap = [l[5:] for l in obs if l.startswith("snap ")]
            if snap:
                hinfo = [l[6:] for l in obs if l.startswith("hinfo ")]
                for problem in snapshot_invariants(snap, hinfo):
                    out.append(Finding(prop, i, sig(i, "snapshot:" + problem.split(":")[0]), problem))
    if prop == "C05":
        out += accept_oracle(prop, ops, sig)
    if prop in ("C06", "C10", "C14"):
        out += items_oracle(prop, ops, sig)
    if prop == "C08":
        out += delivery_oracle(prop, ops, sig)
    if prop == "C14":
        # after a successful component-type removal nothing mentions the type (order-independent, so it may confirm even
        # though the cascade's internal order is unspecified)
        specs = oracle.handler_specs(ops)
        for i, (op, obs) in enumerate(ops):
            if not op.startswith("rmc ") or "ret some" not in obs or any(l.startswith(("panic", "exit")) for l in obs):
                continue
            k = op.split(" ")[1]          # "K3"
            d = k[1:]
            for l in lines_of(obs, "st "):
                if re.search(r"[{,]" + k + r"[:,}]", l):
                    out.append(Finding(prop, i, sig(i, "entity-still-has-removed-component"), f"after `{op}`: {l[:120]}"))
            for l in lines_of(obs, "reg "):
                m = re.match(r"reg c:(\S*) e:(\S*) h:(\S*) stale=", l)
                if not m:
                    continue
                if re.search(r"(^|,)" + k + "=", m.group(1)):
                    out.append(Finding(prop, i, sig(i, "component-still-registered"), f"{k} still registered after `{op}`"))
                for ev in (f"Ins{k}", f"Rem{k}"):
                    if re.search(r"(^|,)" + ev + "=", m.group(2)):
                        out.append(Finding(prop, i, sig(i, "event-still-registered"), f"{ev} still registered after `{op}`"))
                live = [x.split("=")[0] for x in m.group(3).split(",") if "=" in x]
                for name in live:
                    sp = specs.get(name)
                    if not sp or sp["index"] > i:
                        continue
                    mentions = False
                    for prm in sp["params"]:
                        if prm[0] in ("F", "S", "TS") and re.search(r"[rm]" + d, prm[1]):
                            mentions = True
                        if prm[0] == "R" and (prm[1] in (f"Ins{k}", f"Rem{k}") or (len(prm) > 3 and re.search(r"[rm]" + d, prm[3]))):
                            mentions = True
                        if prm[0] == "Snd" and len(prm) > 1 and any(e in (f"Ins{k}", f"Rem{k}") for e in prm[1].split(",")):
                            mentions = True
                    if mentions:
                        out.append(Finding(prop, i, sig(i, "handler-survived-removal"), f"handler {name} mentions {k} and is still registered after `{op}`"))
    if prop == "C14":
        out += cascade_oracle(prop, ops, sig)
    if prop == "C20":
        for i, (op, obs) in enumerate(ops):
            for l in obs:
                if l.startswith("t  arena") and l.endswith("BAD"):
                    out.append(Finding(prop, i, sig(i, "arena-corrupt"), l))
    return out


def accept_oracle(prop, ops, sig):
    """C05: the accept/reject verdict of every `addh` against the aliasing oracle over all archetypes"""
    out = []
    for i, (op, obs) in enumerate(ops):
        if not op.startswith("addh ") or " tid=" in op:
            continue
        ret = [l for l in obs if l.startswith("ret ")]
        if not ret:
            continue
        f = dict(t.split("=", 1) for t in op.split(" ")[1:] if "=" in t)
        params = [p.split(":") for p in f.get("params", "").split(";") if p]
        recvs = [p for p in params if p[0] == "R"]
        codes = [p[3] for p in recvs if len(p) > 3] + [p[1] for p in params if p[0] in ("F", "S", "TS")]
        # targeted receivers without an explicit query use `()`
        try:
            qs = [oracle.parse(c) for c in codes]
        except Exception:
            continue
        if not recvs:
            expected = "err:noevent"
        elif len({p[1] for p in recvs}) > 1:
            expected = "err:multievent"
        elif len(recvs) > 1 and any(p[2] == "m" for p in recvs):
            expected = "err:evaccess"
        else:
            ok, S = oracle.safe(qs)
            expected = "ok" if ok else "err:conflict"
        got = ret[0][4:]
        if not got.startswith(expected):
            what = f"`{op}` returned `{got}` but the parameters " + (
                "can alias mutably" if expected == "err:conflict" else f"call for `{expected}`") + (
                f" (e.g. on an entity with components {sorted(S)})" if expected == "err:conflict" and S is not None else "")
            out.append(Finding(prop, i, sig(i, "accept-oracle"), what))
    return out


def store_complete(line):
    """the `st` line names every live entity (an entity whose world-level `spawn` ended in a panic - a `Single` that did
    not match in a Spawn handler, say - is alive but never got an ordinal, so the line cannot show it)"""
    m = re.match(r"st n=(\d+)", line)
    if not m or "?" in line:
        return False
    live = len(re.findall(r"#\d+=\{", line))
    return live == int(m.group(1))


def _unchanged_store(ops, i):
    if i == 0:
        return None
    a = lines_of(ops[i - 1][1], "st ")
    b = lines_of(ops[i][1], "st ")
    if a and b and a[0] == b[0] and store_complete(a[0]):
        return oracle.parse_store(a[0])
    return None


def items_oracle(prop, ops, sig):
    """C06/C10: what a fetcher iterates, against the documented meaning evaluated on the store (only for operations
    during which the store did not change, so that the `st` line describes what every handler saw)"""
    out = []
    specs = oracle.handler_specs(ops)
    for i, (op, obs) in enumerate(ops):
        store = _unchanged_store(ops, i)
        if store is None:
            continue
        cur = None
        for l in obs:
            m = re.match(r"t h (\S+) ", l)
            if m:
                cur = m.group(1)
                continue
            m = re.match(r"t  it(\d+) \[(.*)\] len=(\d+)", l)
            if m and cur in specs:
                p = int(m.group(1))
                params = specs[cur]["params"]
                if p >= len(params) or params[p][0] != "F":
                    continue
                if re.search(r"\?\d+v\d+", m.group(2)):
                    continue        # an entity without an ordinal yet (a world-level spawn in progress) is not in the `st` line
                try:
                    exp = oracle.expected_items(params[p][1], store)
                except Exception:
                    continue
                got = sorted(x for x in m.group(2).split(";") if x)
                if got != exp or int(m.group(3)) != len(exp):
                    out.append(Finding(prop, i, sig(i, "items-oracle"),
                                       f"handler {cur} fetcher {params[p][1]}: iterated {got[:6]} (len={m.group(3)}) but the store says {exp[:6]}"))
    return out


def delivery_oracle(prop, ops, sig):
    """C08: which handlers a top-level targeted event reaches, against the receiver queries evaluated on the target's
    components (histories without component/event removal; operations during which the store did not change)"""
    out = []
    if any(op.startswith(("rmc", "rmev")) for op, _ in ops):
        return out
    specs = oracle.handler_specs(ops)
    removed = set()
    order = {"h": 0, "m": 1, "l": 2}
    for i, (op, obs) in enumerate(ops):
        if op.startswith("rmh ") and any(l == "ret some" for l in obs):
            removed.add(op.split(" ")[1])
        m = re.match(r"sendto (T\d) (#\d+)$", op)
        if not m:
            continue
        store = _unchanged_store(ops, i)
        if store is None:
            continue
        ev, tgt = m.group(1), m.group(2)
        first = [l for l in obs if l.startswith("t h ")]
        serial = None
        got = []
        for l in first:
            mm = re.match(r"t h (\S+) " + ev + r"\(s(\d+)\)@" + re.escape(tgt) + "$", l)
            if mm:
                if serial is None:
                    serial = mm.group(2)
                if mm.group(2) == serial:
                    got.append(mm.group(1))
        exp = []
        if tgt in store:
            S = set(store[tgt].keys())
            cands = []
            for name, sp in specs.items():
                if name in removed or not sp["accepted"] or sp["index"] > i:
                    continue
                rs = [p for p in sp["params"] if p[0] == "R"]
                if not rs or rs[0][1] != ev:
                    continue
                try:
                    if all(oracle.sem(oracle.parse(p[3] if len(p) > 3 else "()"), S) for p in rs):
                        cands.append((order[sp["prio"]], sp["index"], name, sp))
                except Exception:
                    cands = None
                    break
            if cands is None:
                continue
            for _, _, name, sp in sorted(cands):
                exp.append(name)
        # handlers after a taker do not run: the observed list must be a prefix ending in a taker, or the whole list
        # ... and neither do handlers after one that panicked (a `Single` that does not match, say): the panic unwinds
        took = any(l == "t  took" for l in obs) or any(l.startswith("panic ") for l in obs)
        if got != exp and not (took and got == exp[:len(got)] and got):
            out.append(Finding(prop, i, sig(i, "delivery-oracle"),
                               f"`{op}`: handlers run {got}, receiver queries on the target's components select {exp}"))
    return out


OBSERVER_ACTS = ("iter", "bump", "get", "getmany", "recv", "ents", "alloc")
STATS = {"cascade_removals": 0, "cascade_decided": 0, "cascade_decided_with_despawn_handlers": 0}


def cascade_oracle(prop, ops, sig):
    """C14, the order of the cascade: announcement, then the Despawn events of exactly the entities that have the
    component (each reaching the Despawn handlers whose receiver query matches it, in priority/addition order), and only
    then handler and event removal.  Decided only for removals during which nothing but observers can run (every live
    handler receiving RemoveComponent / Despawn / RemoveHandler / RemoveTargetedEvent has a body that only looks), so that
    the state at each phase is known from the `st` and `reg` lines before the operation."""
    out = []
    specs = oracle.handler_specs(ops)
    order = {"h": 0, "m": 1, "l": 2}
    for i, (op, obs) in enumerate(ops):
        if i == 0 or not op.startswith("rmc ") or "ret some" not in obs:
            continue
        STATS["cascade_removals"] += 1
        if any(l.startswith(("panic", "exit")) for l in obs) or any("?" in l for l in obs if l.startswith("t ")):
            continue
        k = op.split(" ")[1]
        prev = ops[i - 1][1]
        st, reg = lines_of(prev, "st "), lines_of(prev, "reg ")
        if not st or not reg or not store_complete(st[0]):
            continue
        m = re.match(r"reg c:(\S*) e:(\S*) h:(\S*) stale=", reg[0])
        if not m:
            continue
        try:
            store = oracle.parse_store(st[0])
        except Exception:
            continue
        live = [x.split("=")[0] for x in m.group(3).split(",") if "=" in x]
        runners = {}
        ok = True
        for name in live:
            if name.startswith("fn"):
                continue                      # the function handlers receive G0 / G1 / T0 only
            sp = specs.get(name)
            if sp is None:
                ok = False
                break
            rs = [p for p in sp["params"] if p[0] == "R"]
            if not rs:
                ok = False
                break
            if rs[0][1] in ("RemC", "Despawn", "RemH", "RemT"):
                f = dict(t.split("=", 1) for t in ops[sp["index"]][0].split(" ")[1:] if "=" in t)
                acts = [a.split(":")[0] for a in f.get("body", "").split(",") if a]
                if any(a not in OBSERVER_ACTS for a in acts):
                    ok = False
                    break
                runners[name] = (rs[0][1], rs, sp)
        if not ok:
            continue
        heads = [(n, l) for n, l in enumerate(obs) if l.startswith("t h ")]
        # phase order
        first_rm = min([n for n, l in heads if re.match(r"t h \S+ Rem[HT]\(", l)], default=None)
        last_desp = max([n for n, l in heads if re.match(r"t h \S+ Despawn@", l)], default=None)
        last_remc = max([n for n, l in heads if re.match(r"t h \S+ RemC\(", l)], default=None)
        first_desp = min([n for n, l in heads if re.match(r"t h \S+ Despawn@", l)], default=None)
        if first_rm is not None and last_desp is not None and first_rm < last_desp:
            out.append(Finding(prop, i, sig(i, "cascade-order"), f"`{op}`: a handler/event removal was announced before the last Despawn of the cascade was delivered: {obs[first_rm]} … {obs[last_desp]}"))
        if last_remc is not None and first_desp is not None and first_desp < last_remc:
            out.append(Finding(prop, i, sig(i, "cascade-order"), f"`{op}`: a Despawn of the cascade was delivered before the announcement finished: {obs[first_desp]} … {obs[last_remc]}"))
        # who gets their say
        got = {}
        for n, l in heads:
            mm = re.match(r"t h (\S+) Despawn@(#\d+)$", l)
            if mm:
                got.setdefault(mm.group(2), []).append(mm.group(1))
        exp = {}
        bad = False
        for ent, vals in store.items():
            S = set(vals.keys())
            if int(k[1:]) not in S:
                continue
            cands = []
            for name, (ev, rs, sp) in runners.items():
                if ev != "Despawn":
                    continue
                try:
                    if all(oracle.sem(oracle.parse(p[3] if len(p) > 3 else "()"), S) for p in rs):
                        cands.append((order[sp["prio"]], sp["index"], name))
                except Exception:
                    bad = True
            exp[ent] = [n for _, _, n in sorted(cands)]
        if bad:
            continue
        STATS["cascade_decided"] += 1
        if any(exp.values()):
            STATS["cascade_decided_with_despawn_handlers"] += 1
        for ent in sorted(set(got) | set(exp)):
            if got.get(ent, []) != exp.get(ent, []):
                out.append(Finding(prop, i, sig(i, "cascade-despawn-say"),
                                   f"`{op}`: Despawn of {ent} reached {got.get(ent, [])}, but the entities holding {k} and the "
                                   f"receiver queries select {exp.get(ent, []) if ent in exp else 'no Despawn at all'}"))
    return out


def model_inv(prop, impl_ops, model_ops):
    """the executable invariant `Inv` evaluated on the model state after every operation (the implementation agrees with
    the model on the `arch` channel, so a failing conjunct is a defect of the code, not of the model)"""
    out = []
    taint = f8_taint_index(impl_ops)
    for i, (op, obs) in enumerate(model_ops or []):
        for l in obs:
            if l.startswith("inv FAIL:"):
                for name in l[9:].split(","):
                    base = "inv:" + name
                    s = ("F8:" + base) if (taint is not None and i >= taint) else base
                    out.append(Finding(prop, i, s, f"invariant conjunct `{name}` fails after op {i} `{op}`"))
    return out


# ---- C17: invariants of the hook snapshot -----------------------------------------------------------------------

def parse_list(s):
    s = s.strip()
    assert s[0] == "[" and s[-1] == "]", s
    return [x for x in s[1:-1].split(",") if x]


def parse_dnf(text):
    """`ComponentAccess { cases: [[(ComponentIdx(0), Read), (ComponentIdx(1), Not)], []] }` -> [[(0,'Read'),(1,'Not')],[]]"""
    m = re.search(r"cases: (\[.*\]) \}", text)
    if not m:
        return None
    body = m.group(1)
    cases = []
    depth = 0
    cur = None
    for mm in re.finditer(r"\[|\]|\(ComponentIdx\((\d+)\), (\w+)\)", body):
        tok = mm.group(0)
        if tok == "[":
            depth += 1
            if depth == 2:
                cur = []
        elif tok == "]":
            if depth == 2:
                cases.append(cur)
                cur = None
            depth -= 1
        elif cur is not None:
            cur.append((int(mm.group(1)), mm.group(2)))
    return cases


def dnf_matches(cases, comps):
    return any(all((c not in comps) if a == "Not" else (c in comps) for c, a in case) for case in cases)


def snapshot_invariants(snap, hinfo=()):
    """The quiescent-point invariant of C17, evaluated on the implementation's own snapshot."""
    problems = []
    handlers = {}
    for l in hinfo:
        m = re.match(r"(\d+v\d+) recv=([gt])(\d+) prio=([hml]) filter=(.*) archfilter=(.*)$", l)
        if m:
            filt = parse_dnf(m.group(5)) if m.group(5) != "None" else None
            handlers[m.group(1)] = dict(kind=m.group(2), ev=int(m.group(3)), prio=m.group(4), filter=filt, arch=parse_dnf(m.group(6)))
    archs = {}
    locs = {}
    live_handlers = set()
    for l in snap:
        if l.startswith("arch "):
            m = re.match(r"arch (\d+) index=(\d+) comps=(\[.*?\]) ids=(\[.*?\]) ins=(\[.*?\]) rem=(\[.*?\]) refresh=(\[.*?\]) listeners=\[(.*)\]$", l)
            if not m:
                problems.append("parse:" + l)
                continue
            idx = int(m.group(1))
            listeners = {}
            if m.group(8):
                for part in m.group(8).split(";"):
                    k, rest = part.split(":", 1)
                    mm = re.match(r"before=(\d+) after=(\d+) (\[.*\])", rest)
                    listeners[int(k)] = (int(mm.group(1)), int(mm.group(2)), parse_list(mm.group(3)))
            archs[idx] = dict(index=int(m.group(2)), comps=[int(x) for x in parse_list(m.group(3))], ids=parse_list(m.group(4)),
                              ins=[tuple(map(int, x.split(">"))) for x in parse_list(m.group(5))],
                              rem=[tuple(map(int, x.split(">"))) for x in parse_list(m.group(6))],
                              refresh=parse_list(m.group(7)), listeners=listeners)
        elif l.startswith("locs "):
            for x in parse_list(l[5:]):
                k, rest = x.split("@")
                a, r = rest.split(":")
                locs[k] = (int(a), int(r))
        elif l.startswith("hord "):
            live_handlers = set(parse_list(l[5:]))
        elif l.startswith("bycomps "):
            if "exact=true" not in l:
                problems.append("by_components:" + l)
        elif l.startswith("ent "):
            m = re.search(r"res.count=(\d+)", l)
            if m and int(m.group(1)) != 0:
                problems.append("reserved:count " + m.group(1))
            m = re.search(r"queue=(\d+)", l)
            if m and int(m.group(1)) != 0:
                problems.append("queue:len " + m.group(1))
    if 0 not in archs or archs[0]["comps"]:
        problems.append("empty-archetype:missing")
    for l in snap:
        m = re.match(r"member (\d+) (\[.*\])$", l)
        if m:
            c = int(m.group(1))
            got = sorted(int(x) for x in parse_list(m.group(2)))
            exp = sorted(i for i, a in archs.items() if c in a["comps"])
            if got != exp:
                problems.append(f"member_of:component {c} lists archetypes {got}, archetypes having it: {exp}")
    seen_sets = {}
    for idx, a in archs.items():
        if a["index"] != idx:
            problems.append(f"arch-index:{idx} stores index {a['index']}")
        if a["comps"] != sorted(set(a["comps"])):
            problems.append(f"comps-sorted:{idx} {a['comps']}")
        key = tuple(a["comps"])
        if key in seen_sets:
            problems.append(f"comps-distinct:{idx} and {seen_sets[key]} both {a['comps']}")
        seen_sets[key] = idx
        for row, e in enumerate(a["ids"]):
            if locs.get(e) != (idx, row):
                problems.append(f"location:{e} stored at {idx}:{row} but recorded {locs.get(e)}")
        for c, d in a["ins"]:
            if d not in archs:
                problems.append(f"edge:{idx} --ins {c}--> {d} (dead archetype)")
            elif sorted(set(a["comps"]) | {c}) != archs[d]["comps"] or c in a["comps"]:
                problems.append(f"edge:{idx}{a['comps']} --ins {c}--> {d}{archs[d]['comps']}")
        for c, d in a["rem"]:
            if d not in archs:
                problems.append(f"edge:{idx} --rem {c}--> {d} (dead archetype)")
            elif sorted(set(a["comps"]) - {c}) != archs[d]["comps"] or c not in a["comps"]:
                problems.append(f"edge:{idx}{a['comps']} --rem {c}--> {d}{archs[d]['comps']}")
        for h in a["refresh"]:
            if h not in live_handlers:
                problems.append(f"refresh-listener:{idx} names dead handler {h}")
        for t, (before, after, entries) in a["listeners"].items():
            for h in entries:
                if h not in live_handlers:
                    problems.append(f"event-listener:{idx} event {t} names dead handler {h}")
            if not (before <= after <= len(entries)):
                problems.append(f"listener-cursors:{idx} event {t} before={before} after={after} n={len(entries)}")
    if handlers:
        # listener tables name exactly the live handlers whose filter matches, by priority then insertion order; refresh
        # sets are exactly the handlers whose archetype filter matches
        hord = []
        for l in snap:
            if l.startswith("hord "):
                hord = parse_list(l[5:])
        rank = {"h": 0, "m": 1, "l": 2}
        for idx, a in archs.items():
            comps = set(a["comps"])
            exp_refresh = sorted(h for h in hord if h in handlers and handlers[h]["arch"] is not None and dnf_matches(handlers[h]["arch"], comps))
            if sorted(a["refresh"]) != exp_refresh:
                problems.append(f"refresh-set:{idx}{a['comps']} has {sorted(a['refresh'])}, archetype filters select {exp_refresh}")
            evs = {h["ev"] for h in handlers.values() if h["kind"] == "t"} | set(a["listeners"].keys())
            for t in evs:
                exp = [h for h in hord if h in handlers and handlers[h]["kind"] == "t" and handlers[h]["ev"] == t
                       and handlers[h]["filter"] is not None and dnf_matches(handlers[h]["filter"], comps)]
                exp = sorted(exp, key=lambda h: (rank[handlers[h]["prio"]], hord.index(h)))
                got = a["listeners"].get(t, (0, 0, []))[2]
                if got != exp:
                    problems.append(f"listener-table:{idx}{a['comps']} event {t} lists {got}, filters select {exp}")
    for e, (a, r) in locs.items():
        if a not in archs or r >= len(archs[a]["ids"]) or archs[a]["ids"][r] != e:
            problems.append(f"location:{e} recorded at {a}:{r} but not stored there")
    return problems


# ---- canonical projections -------------------------------------------------------------------------------------------

ID_RE = re.compile(r"\b\d+v\d+\b")


STRICT_OBSERVER_ACTS = ("iter", "get", "getmany", "recv", "ents", "alloc")


def rmc_projection(iops, mops, i):
    """A difference that first shows at an `rmc` operation normally cannot confirm a violation (the order in which the
    cascade despawns entities and removes handlers/events is unspecified, and handlers can make the outcome depend on it).
    It CAN when the outcome is order-independent on this history: the announcement phase is a single event delivered
    depth-first in priority order (C04, C07: nothing unspecified), and if every handler that runs after it - from the first
    Despawn / RemoveHandler / RemoveTargetedEvent delivery on, on either side - only looks (no sender use, no take, no
    write), then the final store, the registered names and the set of deliveries are determined. Returns the two
    order-insensitive projections to compare, or None if the history does not qualify."""
    specs = oracle.handler_specs(iops)

    def observers_after_phase1(obs):
        seen = False
        for l in obs:
            m = re.match(r"t h (\S+) (\S+)", l)
            if not m:
                continue
            if not seen and re.match(r"(Despawn@|RemH\(|RemT\()", m.group(2)):
                seen = True
            if seen:
                sp = specs.get(m.group(1))
                if sp is None:
                    return False
                f = dict(t.split("=", 1) for t in iops[sp["index"]][0].split(" ")[1:] if "=" in t)
                acts = [a.split(":")[0] for a in f.get("body", "").split(",") if a]
                if any(a not in STRICT_OBSERVER_ACTS for a in acts):
                    return False
        return True

    (op, il), (_, ml) = iops[i], mops[i]
    for obs in (il, ml):
        if any(l.startswith(("panic", "exit", "ub ", "assert ")) or l.startswith("ret panic") for l in obs):
            return None
        if any("?" in l for l in obs if l.startswith(("t ", "st "))):
            return None
        if not observers_after_phase1(obs):
            return None

    def proj(obs):
        out = [l for l in obs if l.startswith("ret ")]
        out += [l for l in obs if l.startswith("st ")]
        for l in obs:
            if l.startswith("reg "):
                out.append(re.sub(r"=\d+v\d+", "", l))
        # who ran for what (ids inside Add*/Rem* renders and payload serials are incidental)
        out += sorted(re.sub(r"\(s\d+\)", "(s)", re.sub(r"\((\d+v\d+)\)", "(id)", l)) for l in obs if l.startswith("t h "))
        return out

    return proj(il), proj(ml)


def canon(prop):
    """projection applied to both sides before the property-level comparison"""

    def f(ch, lines, op):
        out = []
        if ch == "arch":
            # slab indices, free-list order and handler ids are incidental: the snapshot is judged by its invariants
            # (direct judge on the implementation's own snapshot, executable `Inv` on the model), not by equality
            return []
        for l in lines:
            if ch == "ids":
                l = re.sub(r"\d+v\d+", "id", l)      # which index/generation is handed out is incidental; uniqueness is judged directly
            if ch == "reg":
                l = re.sub(r"=\d+v\d+", "", l)
            if ch == "trace":
                # registry ids inside Add*/Rem* renders are incidental
                l = re.sub(r"\((\d+v\d+)\)", "(id)", l)
                # an entity id that has no ordinal yet (a world-level spawn in progress): which slot is reused is incidental
                l = re.sub(r"\?\d+v\d+", "?id", l)
            if ch == "ret" and l.startswith(("ub ", "assert ")):
                l = "model-marker"
            if ch == "ret" and l.startswith("panic internal"):
                l = "model-marker"
            out.append(l)
        if ch == "trace" and op.startswith("rmc "):
            # the order in which the entities of a removed component are despawned follows slab iteration; serials and
            # ordinals handed out inside the cascade follow that order
            out = sorted(re.sub(r"\(s\d+\)", "(s)", re.sub(r"#\d+", "#", l)) for l in out)
        if ch in ("evdrops", "cdrops", "store") and op.startswith("rmc "):
            out = [re.sub(r"#\d+", "#", l) for l in out] if ch == "store" else out
        return out

    if prop in ("C14", "C02", "C09", "C10", "C15", "C17"):
        f.rmc = rmc_projection
    return f
