"""Per-property configuration: generator profiles and budgets, compared channels, and the rule that makes a history
non-trivial for the property (counted per run for the evidence file)."""
import re

ALL = ["ret", "ids", "trace", "evdrops", "cdrops", "store", "reg", "pend"]


def has(pattern):
    rx = re.compile(pattern)

    def f(ops, impl):
        return any(rx.search(l) for _, obs in impl for l in obs) or any(rx.search(op) for op, _ in impl)

    return f


def count_ops(pattern, n):
    rx = re.compile(pattern)

    def f(ops, impl):
        return sum(1 for op in ops if rx.search(op)) >= n

    return f


def both(*fs):
    return lambda ops, impl: all(f(ops, impl) for f in fs)


def either(*fs):
    return lambda ops, impl: any(f(ops, impl) for f in fs)


# (profile, {tier: count}, options)
PROPS = {
    "C01": dict(
        profiles=[("wide", dict(quick=30, thorough=800), {}), ("general", dict(quick=120, thorough=3000), dict(comps=(0, 1, 2, 3, 4, 5), allow_panic=0.03)),
                  ("storage", dict(quick=40, thorough=800), {}),
                  ("cascade", dict(quick=40, thorough=800), {}),
                  ("queries", dict(quick=20, thorough=300), {})],
        channels=ALL, builds=["debug", "release"], builds_thorough=["debug", "release", "asan"], snap=False,
        rule="history reaches a handler invocation and at least one structural move, removal or panic",
        nontrivial=both(has(r"^t h "), either(has(r"^panic "), has(r"^(remove|despawn|rmc)"))),
    ),
    "C02": dict(
        profiles=[("storage", dict(quick=80, thorough=1500), {}), ("general", dict(quick=40, thorough=500), dict(comps=(0, 1, 2, 3, 4, 5))),
                  ("graphs", dict(quick=80, thorough=1500), dict(take_p=0.3))],
        channels=["store"],
        rule="history moves an entity between archetypes and removes a row that is not the last one (>= 3 inserts, >= 1 remove/despawn)",
        nontrivial=both(count_ops(r"^insert", 3), count_ops(r"^(remove|despawn)", 1)),
    ),
    "C03": dict(
        profiles=[("spawns", dict(quick=150, thorough=4000), {}), ("general", dict(quick=30, thorough=500), {}),
                  # ids must stay valid through the removal of component types the entity does not have (round-7 change
                  # C03_W_1: stale member_of entries tear down an unrelated archetype, its entities vanish)
                  ("cascade", dict(quick=40, thorough=1000), {})],
        channels=["ids", "store", "ret"],
        rule="history reuses an entity slot (a spawn after a despawn) or spawns from inside a handler",
        nontrivial=either(has(r"^t  spawned"), both(count_ops(r"^despawn", 1), count_ops(r"^spawn", 3))),
    ),
    "C04": dict(
        profiles=[("graphs", dict(quick=200, thorough=6000), {})],
        channels=["trace"],
        rule="some delivery triggers at least two further deliveries (nested propagation)",
        nontrivial=lambda ops, impl: any(sum(1 for l in obs if l.startswith("t h ")) >= 3 for _, obs in impl),
    ),
    "C05": dict(
        profiles=[("wide", dict(quick=10, thorough=300), dict(bases=("accept",))), ("accept", dict(quick=60, thorough=2500), {})],
        channels=["ret", "accept", "trace"],
        rule="history registers handlers with >= 2 component-accessing parameters and sees both an accepted and a rejected one",
        nontrivial=both(has(r"^ret ok"), has(r"^ret err:conflict")),
    ),
    "C06": dict(
        profiles=[("queries", dict(quick=60, thorough=2000), {})],
        channels=["trace"],
        rule="a fetcher iterates over >= 2 matching archetypes and a random access reports a non-matching or missing entity",
        nontrivial=both(has(r"^t  it\d+ \[.*;.*\]"), has(r"Err\((QueryDoesNotMatch|NoSuchEntity)\)")),
    ),
    "C07": dict(
        profiles=[("priorities", dict(quick=250, thorough=8000), {}), ("graphs", dict(quick=100, thorough=3000), {}),
                  ("targeted", dict(quick=60, thorough=1500), {}), ("lifecycle", dict(quick=100, thorough=3000), {})],
        channels=["trace"],
        rule="an event is delivered to >= 2 handlers of different priority or after a handler removal",
        nontrivial=either(has(r"prio=h"), has(r"^rmh")),
    ),
    "C08": dict(
        profiles=[("targeted", dict(quick=150, thorough=5000), {}), ("lifecycle", dict(quick=100, thorough=3000), {})],
        channels=["trace"],
        rule="a targeted event is delivered after the target's archetype changed, or to a dead target",
        nontrivial=has(r"^t h r\d+ T0"),
    ),
    "C09": dict(
        profiles=[("graphs", dict(quick=150, thorough=4000), dict(take_p=0.35)), ("general", dict(quick=50, thorough=800), {}),
                  # inserts and removes along archetype edges that were cached before a component type was removed and its
                  # index reused (round-7 change C09_W_1: the stale-edge sweep of remove_component made a no-op)
                  ("cascade", dict(quick=40, thorough=1000), {})],
        channels=["store", "trace", "evdrops", "cdrops"],
        rule="a handler observes, consumes or reacts to an Insert/Remove/Despawn/Spawn event",
        nontrivial=has(r"^t h \S+ (InsK|RemK|Despawn|Spawn)"),
    ),
    "C10": dict(
        profiles=[("queries", dict(quick=80, thorough=2500), {}), ("general", dict(quick=40, thorough=800), {}),
                  ("cascade", dict(quick=80, thorough=2000), {}), ("lifecycle", dict(quick=50, thorough=1500), {})],
        channels=["trace"],
        rule="a fetcher iterates after structural changes that happened since its handler was added",
        nontrivial=both(has(r"^t  it\d+"), count_ops(r"^(despawn|remove|insert)", 4)),
    ),
    "C11": dict(
        profiles=[("graphs", dict(quick=200, thorough=6000), {}), ("storage", dict(quick=40, thorough=600), {}),
                  ("graphs", dict(quick=80, thorough=2500), dict(panic_p=0.2, take_p=0.35, stray_p=0.15)),
                  # event types removed and registered again (registry slot reuse) with events sent afterwards
                  ("cascade", dict(quick=80, thorough=2000), {}),
                  # first use of a type from a world-level call while registration notifications panic / take / react
                  ("firstuse", dict(quick=60, thorough=2000), {}),
                  # handlers with two receivers of one event (accepted only when both are shared)
                  ("graphs", dict(quick=60, thorough=2000), dict(dup_recv_p=0.4, take_p=0.45, panic_p=0.1))],
        channels=["evdrops", "cdrops"],
        rule="events are destroyed on at least two different paths (completion, consumed, dead target)",
        nontrivial=both(has(r"^ed \d"), either(has(r"^t  took"), has(r"^t h .*@(null|\?)"))),
    ),
    "C12": dict(
        profiles=[("storage", dict(quick=100, thorough=2500), {})],
        channels=["cdrops"],
        rule="component values with destructors are destroyed by at least two different operations",
        nontrivial=lambda ops, impl: sum(1 for _, obs in impl for l in obs if l.startswith("cd K")) >= 2,
    ),
    "C13": dict(
        profiles=[("graphs", dict(quick=200, thorough=6000), dict(panic_p=0.25)),
                  ("graphs", dict(quick=120, thorough=4000), dict(panic_p=0.1, stray_p=0.2, take_p=0.3)),
                  ("firstuse", dict(quick=80, thorough=2500), {})],
        channels=["evdrops", "cdrops", "ret"],
        rule="a handler panics while other events are still queued",
        nontrivial=has(r"^panic user"),
    ),
    "C14": dict(
        bitset=True,
        profiles=[("wide", dict(quick=30, thorough=800), dict(bases=("cascade", "lifecycle"))), ("cascade", dict(quick=150, thorough=4000), {})],
        channels=["trace", "store", "reg", "ret"],
        rule="a component type that is present on entities and referenced by handlers is removed",
        nontrivial=both(has(r"^rmc"), has(r"^ret some")),
    ),
    "C15": dict(
        bitset=True,
        profiles=[("wide", dict(quick=40, thorough=1000), dict(bases=("cascade", "graphs", "priorities", "lifecycle"))), ("cascade", dict(quick=150, thorough=4000), {}), ("graphs", dict(quick=50, thorough=1000), {}),
                  ("priorities", dict(quick=100, thorough=3000), {}), ("lifecycle", dict(quick=80, thorough=2500), {})],
        channels=["trace", "reg", "ret"],
        rule="a handler or an event type with users is removed and events are delivered afterwards",
        nontrivial=both(has(r"^(rmh|rmev)"), has(r"^ret some")),
    ),
    "C16": dict(
        profiles=[("wide", dict(quick=30, thorough=800), dict(bases=("cascade", "lifecycle"))), ("cascade", dict(quick=150, thorough=4000), {}), ("lifecycle", dict(quick=60, thorough=2000), {}),
                  ("firstuse", dict(quick=40, thorough=1500), {})],
        channels=["ids", "reg", "trace", "ret"],
        rule="an item is registered again after removal (index reuse) or re-registered while present",
        nontrivial=either(has(r"^ret dup"), both(has(r"^(rmc|rmev|rmh)"), has(r"^(addc|addev|addh)"))),
    ),
    "C17": dict(
        profiles=[("wide", dict(quick=25, thorough=600), {}), ("general", dict(quick=60, thorough=1500), dict(comps=(0, 1, 2, 3))), ("cascade", dict(quick=60, thorough=1500), {}),
                  ("storage", dict(quick=30, thorough=500), {}), ("spawns", dict(quick=30, thorough=500), {}),
                  ("lifecycle", dict(quick=40, thorough=1000), {})],
        channels=["arch", "pend"], snap=True, inv=True,
        rule="history creates >= 3 archetypes and removes at least one entity, handler or component type",
        nontrivial=both(count_ops(r"^insert", 3), has(r"^(despawn|rmc|rmh|remove)")),
    ),
    "C20": dict(
        profiles=[("arena", dict(quick=100, thorough=3000), {})],
        channels=["trace"],
        rule="an arena-borrowed payload is read by a handler after being forwarded at least once",
        nontrivial=has(r"^t  arena a\d+ len=[1-9]"),
    ),
}
