"""History generators (one PRNG per history, derived from the run seed).

A history is a list of operation lines of the protocol in DESIGN.md §3.1.  Every profile biases the same
vocabulary towards the mechanisms one property depends on.  The generators only use query codes of the typed
family (family.json), because every code needs a monomorphised Rust type in the harness.
"""
import json, os, random

HERE = os.path.dirname(os.path.abspath(__file__))
FAMILY = json.load(open(os.path.join(HERE, "..", "family.json")))

USER_G = ["G0", "G1", "G2"]
USER_T = ["T0", "T1", "T2"]
BUILTIN_G = ["Spawn", "AddC", "RemC", "AddH", "RemH", "AddG", "AddT", "RemG", "RemT"]


def is_targeted(ev):
    return ev[0] == "T" or ev == "Despawn" or ev.startswith("InsK") or ev.startswith("RemK")


def readonly(code):
    return "m" not in code


class Ctx:
    """What the generator knows about the history so far (approximate: handlers may spawn too)."""

    def __init__(self, r, comps=(0, 1, 2)):
        self.r = r
        self.comps = list(comps)
        self.nspawn = 0
        self.names = []
        self.hcount = 0

    def ent(self, slack=2):
        n = self.nspawn + slack
        return f"#{self.r.randrange(max(1, n))}"

    def k(self):
        return f"K{self.r.choice(self.comps)}"


def pick_fetch(r, comps, safe_bias=0.7):
    fam = [c for c in FAMILY["fetch"] if all((not ch.isdigit()) or int(ch) in comps for ch in c)]
    if r.random() < safe_bias:
        ro = [c for c in fam if readonly(c)]
        return r.choice(ro)
    return r.choice(fam)


def rand_tgt(r, ctx, targeted):
    opts = ["ev", "last", ctx.ent(), ctx.ent()]
    if targeted:
        opts += ["self", "self", "self"]
    return r.choice(opts)


def rand_handler(ctx, name=None, recv=None, prio=None, allow_panic=0.02, take_p=0.15, nfetch=None, sender_p=0.7,
                 body_len=(1, 5), mut_p=0.3, safe_bias=0.7, sends=None, tid=None, observer=False):
    r = ctx.r
    if observer:        # a handler that only looks: no sender, never takes, no Single (which may panic)
        sender_p, take_p, mut_p, allow_panic, sends = 0.0, 0.0, 0.0, 0.0, None
    if name is None:
        name = f"h{ctx.hcount}"
    ctx.hcount += 1
    if recv is None:
        x = r.random()
        if x < 0.40:
            recv = r.choice(USER_G)
        elif x < 0.65:
            recv = "T0"
        elif x < 0.70:
            recv = r.choice(["T1", "T2"])
        elif x < 0.75:
            recv = "Spawn"
        elif x < 0.83:
            recv = "Despawn"
        elif x < 0.93:
            recv = r.choice(["InsK", "RemK"]) + str(r.choice(ctx.comps))
        else:
            recv = r.choice(BUILTIN_G[1:])
    targeted = is_targeted(recv)
    can_mut = recv in USER_G + ["G3"] or targeted
    mutable = can_mut and r.random() < mut_p
    params = []
    if targeted:
        fam = FAMILY["recv_t0"] if recv == "T0" else FAMILY["recv_other"]
        fam = [c for c in fam if all((not ch.isdigit()) or int(ch) in ctx.comps for ch in c)]
        q = r.choice(fam)
        params.append(f"R:{recv}:{'m' if mutable else 'i'}:{q}")
    else:
        params.append(f"R:{recv}:{'m' if mutable else 'i'}")
    fetch_idx, single_idx = [], []
    nf = nfetch if nfetch is not None else r.choice([0, 0, 1, 1, 1, 2, 2, 3])
    for _ in range(nf):
        fetch_idx.append(len(params))
        params.append("F:" + pick_fetch(r, ctx.comps, safe_bias))
    if r.random() < 0.12 and not observer:
        single_idx.append(len(params))
        q = r.choice([c for c in FAMILY["single"] if all((not ch.isdigit()) or int(ch) in ctx.comps for ch in c)])
        params.append(("S:" if r.random() < 0.4 else "TS:") + q)
    sendable = USER_G + USER_T + ["Spawn", "Despawn"] + [f"InsK{k}" for k in ctx.comps] + [f"RemK{k}" for k in ctx.comps]
    my_sends = []
    has_sender = False
    if sends is not None:
        my_sends = list(sends)
        has_sender = True
        params.append("Snd:" + ",".join(my_sends))
    elif r.random() < sender_p:
        has_sender = True
        my_sends = r.sample(sendable, r.randint(1, 5))
        params.append("Snd:" + ",".join(my_sends))
    has_ent = r.random() < 0.2
    if has_ent:
        params.append("Ent")
    body = []
    for _ in range(r.randint(*body_len)):
        x = r.random()
        if fetch_idx and x < 0.30:
            p = r.choice(fetch_idx)
            y = r.random()
            if y < 0.5:
                body.append(f"iter:{p}")
            elif y < 0.65:
                body.append(f"bump:{p}")
            elif y < 0.85:
                body.append(f"get:{p}:{rand_tgt(r, ctx, targeted)}")
            else:
                n = r.randint(1, 4)
                body.append(f"getmany:{p}:" + "+".join(rand_tgt(r, ctx, targeted) for _ in range(n)))
        elif has_sender and x < 0.75:
            pool = my_sends if (my_sends and r.random() < 0.96) else sendable
            ev = r.choice(pool)
            if ev in USER_G:
                body.append(f"send:{ev}")
            elif ev in USER_T:
                body.append(f"sendto:{ev}:{rand_tgt(r, ctx, targeted)}")
            elif ev == "Spawn":
                body.append("spawn")
            elif ev == "Despawn":
                body.append(f"despawn:{rand_tgt(r, ctx, targeted)}")
            elif ev.startswith("InsK"):
                body.append(f"ins:{rand_tgt(r, ctx, targeted)}:K{ev[4:]}:{r.randrange(100)}")
            else:
                body.append(f"rem:{rand_tgt(r, ctx, targeted)}:K{ev[4:]}")
        elif mutable and x < 0.75 + take_p:
            body.append("take")
        elif targeted and x < 0.93:
            body.append("recv")
        elif single_idx and x < 0.96:
            body.append(f"single:{r.choice(single_idx)}")
        elif has_ent and x < 0.98:
            body.append("ents")
        elif r.random() < allow_panic * 10:
            body.append("panic")
    if prio is None:
        prio = r.choice(["h", "m", "m", "m", "l"])
    line = f"addh name={name} prio={prio}"
    if tid is not None:
        line += f" tid={tid}"
    line += " params=" + ";".join(params) + " body=" + ",".join(body)
    ctx.names.append(name)
    return line


def structural_op(ctx):
    r = ctx.r
    x = r.random()
    if x < 0.2 or ctx.nspawn == 0:
        ctx.nspawn += 1
        return "spawn"
    if x < 0.55:
        return f"insert {ctx.ent()} {ctx.k()} {r.randrange(1000)}"
    if x < 0.75:
        return f"remove {ctx.ent()} {ctx.k()}"
    if x < 0.88:
        return f"despawn {ctx.ent()}"
    return f"insert {ctx.ent()} {ctx.k()} {r.randrange(1000)}"


def send_op(ctx):
    r = ctx.r
    if r.random() < 0.55:
        return f"send {r.choice(USER_G)}"
    return f"sendto {r.choice(USER_T if r.random() < 0.3 else ['T0'])} {ctx.ent()}"


# ---- profiles ------------------------------------------------------------------------------------------------------

def general(seed, nops=40, comps=(0, 1, 2), handler_p=0.15, rm_p=0.05, final_drop=True, **hopts):
    r = random.Random(seed)
    ctx = Ctx(r, comps)
    ops = []
    for _ in range(r.randint(1, 3)):
        ops.append("spawn")
        ctx.nspawn += 1
    for _ in range(nops):
        x = r.random()
        if x < handler_p:
            ops.append(rand_handler(ctx, **hopts))
        elif x < handler_p + 0.45:
            ops.append(structural_op(ctx))
        elif x < handler_p + 0.45 + rm_p:
            y = r.random()
            if y < 0.4 and ctx.names:
                ops.append(f"rmh {r.choice(ctx.names)}")
            elif y < 0.7:
                ops.append(f"rmc {ctx.k()}")
            elif y < 0.85:
                ops.append(f"rmev {r.choice(USER_G + USER_T)}")
            else:
                ops.append(f"addc {ctx.k()}")
        else:
            ops.append(send_op(ctx))
    if final_drop:
        ops.append("drop")
    return ops


def storage(seed, nops=200, comps=(0, 1, 2, 3, 4, 5)):
    """C02/C12: long structural histories over all layout classes, bursts that cross capacities, removals in the middle
    of rows, component-type removal and re-registration, some ops issued from handlers."""
    r = random.Random(seed)
    ctx = Ctx(r, comps)
    ops = []
    # a few handlers that issue structural ops from inside deliveries
    for i in range(r.randint(0, 3)):
        k = r.choice(comps)
        sends = r.sample([f"InsK{k}", f"RemK{k}", "Despawn", "Spawn"], r.randint(1, 3))
        ops.append(rand_handler(ctx, recv=r.choice(USER_G + ["T0"]), sends=sends, nfetch=r.choice([0, 1]), allow_panic=0, take_p=0))
    burst = 0
    for _ in range(nops):
        x = r.random()
        if burst > 0:
            burst -= 1
            ops.append("spawn")
            ctx.nspawn += 1
            if r.random() < 0.8:
                ops.append(f"insert #{ctx.nspawn - 1} {ctx.k()} {r.randrange(1000)}")
            continue
        if x < 0.04:
            burst = r.choice([3, 5, 9, 17])
        elif x < 0.07:
            ops.append(f"rmc {ctx.k()}")
        elif x < 0.12:
            ops.append(send_op(ctx))
        else:
            ops.append(structural_op(ctx))
    ops.append("drop")
    return ops


def graphs(seed, nhandlers=8, nsends=6, panic_p=0.0, take_p=0.2, stray_p=0.0, dup_recv_p=0.0):
    """C04/C07/C09/C11/C13: dense random handler graphs over the user and structural events, then initial events.
    Handlers mostly send events that other handlers listen for, so propagation nests (budget 24 sends per top-level op)."""
    r = random.Random(seed)
    ctx = Ctx(r, (0, 1))
    ops = []
    ne = r.randint(2, 5)
    for _ in range(ne):
        ops.append("spawn")
        ctx.nspawn += 1
        if r.random() < 0.8:
            ops.append(f"insert #{ctx.nspawn - 1} K0 {r.randrange(50)}")
        if r.random() < 0.3:
            ops.append(f"insert #{ctx.nspawn - 1} K1 {r.randrange(50)}")
    pool = USER_G + ["T0", "T0", "T1", "Despawn", "Spawn", "InsK0", "RemK0", "InsK1", "InsK3", "InsK1"]
    nh = r.randint(3, nhandlers)
    recvs = [r.choice(USER_G + USER_G + ["T0", "T0", "T1", "Despawn", "Spawn", "InsK0", "RemK0"]) for _ in range(nh)]
    listened = set(recvs)
    for i, recv in enumerate(recvs):
        targeted = is_targeted(recv)
        mutable = (recv in USER_G or targeted) and r.random() < 0.4
        name = f"h{i}"
        ctx.names.append(name)
        params = []
        if targeted:
            q = r.choice(["()", "E", "E", "r0", "(E,?m1)", "!r0"])
            params.append(f"R:{recv}:{'m' if mutable else 'i'}:{q}")
        else:
            params.append(f"R:{recv}:{'m' if mutable else 'i'}")
            if dup_recv_p and recv in USER_G and r.random() < dup_recv_p:
                # a second receiver of the same event: two shared ones are fine, anything with a mutable one must be refused
                # (round-8 change C11_X_1 let two ReceiverMut through: one takes the value, the other still holds it)
                params.append(f"R:{recv}:{r.choice('mmi')}")
        has_fetch = r.random() < 0.3
        if has_fetch:
            params.append("F:" + r.choice(["(E,r0)", "(E,?r0,?r1,?r2)", "E", "(E,m0)", "!r0"]))
        sends = r.sample(sorted(set(pool)), r.randint(1, 4))
        # bias towards events somebody listens for
        sends = list(dict.fromkeys(sends + [x for x in r.sample(sorted(listened), min(2, len(listened))) if x in pool]))
        if r.random() < 0.9:
            params.append("Snd:" + ",".join(sends))
        else:
            sends = []
        body = []
        for _ in range(r.randint(1, 5)):
            x = r.random()
            if sends and x < 0.7:
                ev = r.choice(sends)
                if stray_p and r.random() < stray_p:
                    # an event outside the handler's event set: the documented `Sender` panic, raised inside send / send_to /
                    # insert / spawn while the event value already exists
                    ev = r.choice(pool)
                tg = rand_tgt(r, ctx, targeted)
                if ev in USER_G:
                    body.append(f"send:{ev}")
                elif ev in USER_T:
                    body.append(f"sendto:{ev}:{tg}")
                elif ev == "Spawn":
                    body.append("spawn")
                elif ev == "Despawn":
                    body.append(f"despawn:{tg}")
                elif ev.startswith("InsK"):
                    body.append(f"ins:{tg}:K{ev[4:]}:{r.randrange(100)}")
                else:
                    body.append(f"rem:{tg}:K{ev[4:]}")
            elif mutable and x < 0.7 + take_p:
                body.append("take")
            elif has_fetch and x < 0.95:
                body.append(r.choice(["iter:1", "iter:1", "bump:1", f"get:1:{rand_tgt(r, ctx, targeted)}"]))
            elif targeted and x < 0.97:
                body.append("recv")
            elif r.random() < panic_p:
                body.append("panic")
        if panic_p and r.random() < panic_p * 0.6:
            body.insert(r.randint(0, len(body)), "panic")
        ops.append(f"addh name={name} prio={r.choice('hmmml')} params={';'.join(params)} body={','.join(body)}")
        if r.random() < 0.08 and ctx.names:
            ops.append(f"rmh {r.choice(ctx.names)}")
    for _ in range(r.randint(3, nsends + 2)):
        x = r.random()
        ev = r.choice(sorted(listened))
        if x < 0.75:
            if ev in USER_G:
                ops.append(f"send {ev}")
            elif ev in USER_T:
                ops.append(f"sendto {ev} {ctx.ent(1)}")
            elif ev == "Spawn":
                ops.append("spawn")
                ctx.nspawn += 1
            elif ev == "Despawn":
                ops.append(f"despawn {ctx.ent(1)}")
            elif ev.startswith("InsK"):
                ops.append(f"insert {ctx.ent(1)} K{ev[4:]} {r.randrange(100)}")
            else:
                ops.append(f"remove {ctx.ent(1)} K{ev[4:]}")
        else:
            ops.append(structural_op(ctx))
    ops.append("drop")
    return ops


def accept(seed, n=30):
    """C05: parameter lists of every shape; mostly one `addh` per fresh world would hide index reuse, so several per world."""
    r = random.Random(seed)
    ops = []
    comps = (0, 1, 2)
    ctx = Ctx(r, comps)
    fam = [c for c in FAMILY["fetch"] if all((not ch.isdigit()) or int(ch) in comps for ch in c)]
    for i in range(n):
        x = r.random()
        params = []
        if x < 0.5:
            params.append("R:G0:i")
        elif x < 0.85:
            rq = r.choice([c for c in FAMILY["recv_t0"] if all((not ch.isdigit()) or int(ch) in comps for ch in c)])
            params.append(f"R:T0:{r.choice('im')}:{rq}")
        elif x < 0.88:
            params.append("R:G0:" + r.choice("im"))
            params.append("R:G0:" + r.choice("im"))
        elif x < 0.92:
            rq = r.choice(FAMILY["recv_other"])
            rq2 = r.choice(FAMILY["recv_other"])
            params.append(f"R:T1:{r.choice('im')}:{rq}")
            params.append(f"R:T1:{r.choice('im')}:{rq2}")
        elif x < 0.94:
            params.append("R:G0:i")
            params.append("R:G1:i")
        elif x < 0.97:
            # no receiver at all (configuration error); the protocol does not allow a fetcher-like parameter in front, so an
            # `&Entities` parameter leads
            params.append("Ent")
        else:
            rq = r.choice(FAMILY["recv_other"])
            rq2 = r.choice(FAMILY["recv_other"])
            params.append(f"R:T1:i:{rq}")
            params.append(f"R:T1:i:{rq2}")
        for _ in range(r.choice([1, 1, 2, 2, 2, 3, 4])):
            params.append("F:" + r.choice(fam))
        if r.random() < 0.15:
            fs = [p for p in params if p.startswith("F:")]
            if fs:
                params.append(r.choice(fs))          # the very same access expression twice
        name = f"a{i}"
        body = ",".join(f"iter:{j}" for j, p in enumerate(params) if p.startswith("F:"))
        ops.append(f"addh name={name} prio=m params={';'.join(params)} body={body}")
    # make sure accepted handlers actually run on every archetype over the three components
    for mask in range(8):
        ops.append("spawn")
        e = ctx.nspawn
        ctx.nspawn += 1
        for k in range(3):
            if mask >> k & 1:
                ops.append(f"insert #{e} K{k} {10 * e + k}")
    ops.append("send G0")
    for e in range(8):
        ops.append(f"sendto T0 #{e}")
    ops.append("drop")
    return ops


def queries(seed, codes=None, npop=3):
    """C06/C10: every archetype over the component universe, several populations, every family query as fetcher."""
    r = random.Random(seed)
    comps = (0, 1, 2)
    fam = codes or [c for c in FAMILY["fetch"] if all((not ch.isdigit()) or int(ch) in comps for ch in c)]
    ops = []
    ctx = Ctx(r, comps)
    # three codes by rotation (consecutive seeds walk through the whole family, so that one quick run registers every
    # family query at least once), three at random
    rot = [fam[(seed * 3 + j) % len(fam)] for j in range(3)]
    chosen = r.sample(fam, min(len(fam), 3)) + rot
    r.shuffle(chosen)
    early = chosen[:2]
    for i, q in enumerate(early):
        ops.append(f"addh name=q{i} prio=m params=R:G0:i;F:{q};Snd:G1 body=iter:1,bump:1,iter:1,get:1:{ctx.ent(8)},getmany:1:#0+#1+#{r.randrange(4)}")
    # populate: each archetype gets 0..9 rows
    for mask in range(8):
        rows = r.choice([0, 1, 1, 2, 3, 5, 9])
        for _ in range(rows):
            ops.append("spawn")
            e = ctx.nspawn
            ctx.nspawn += 1
            for k in range(3):
                if mask >> k & 1:
                    ops.append(f"insert #{e} K{k} {r.randrange(100)}")
    for i, q in enumerate(chosen[2:], start=2):
        ops.append(f"addh name=q{i} prio=m params=R:G0:i;F:{q} body=iter:1,get:1:{ctx.ent()},get:1:{ctx.ent()},getmany:1:{ctx.ent()}+{ctx.ent()},bump:1,iter:1")
    # Single / TrySingle over the same populations: exactly one match, none, or several (possibly in different archetypes)
    sq = r.choice([c for c in FAMILY["single"] if all((not ch.isdigit()) or int(ch) in comps for ch in c)])
    ops.append(f"addh name=ts prio=m params=R:G1:i;TS:{sq} body=single:1")
    if r.random() < 0.4:
        ops.append(f"addh name=sg prio=l params=R:G1:i;S:{r.choice(['r0', 'E', '(E,r1)', 'O<r0|r1>'])} body=single:1")
    ops.append("send G0")
    ops.append("send G1")
    # churn: removals in the middle, moves, emptied and refilled archetypes
    for _ in range(r.randint(5, 25)):
        x = r.random()
        if x < 0.35:
            ops.append(f"despawn {ctx.ent(0)}")
        elif x < 0.6:
            ops.append(f"remove {ctx.ent(0)} {ctx.k()}")
        elif x < 0.9:
            ops.append(f"insert {ctx.ent(0)} {ctx.k()} {r.randrange(100)}")
        else:
            ops.append("spawn")
            ctx.nspawn += 1
        if r.random() < 0.3:
            ops.append("send G0")
    ops.append("send G0")
    ops.append("send G1")
    ops.append("drop")
    return ops


def targeted(seed):
    """C08: receiver queries x target archetypes x structural change queued between send and delivery."""
    r = random.Random(seed)
    comps = (0, 1, 2)
    ctx = Ctx(r, comps)
    ops = []
    fam = [c for c in FAMILY["recv_t0"] if all((not ch.isdigit()) or int(ch) in comps for ch in c)]
    for i in range(r.randint(2, 6)):
        q = r.choice(fam)
        ops.append(f"addh name=r{i} prio={r.choice('hml')} params=R:T0:{r.choice('iim')}:{q} body=recv")
    # a driver handler: on G0 it queues a structural change on the target and then the targeted event (or the other
    # way round), so that the target's archetype at delivery differs from the one at send time
    change = r.choice(["ins:#T:K0:7", "rem:#T:K0", "ins:#T:K1:8", "rem:#T:K1", "despawn:#T", "ins:#T:K2:1", ""])
    tgt = r.randrange(8)
    acts = [a.replace("#T", f"#{tgt}") for a in ([change, f"sendto:T0:#{tgt}"] if r.random() < 0.7 else [f"sendto:T0:#{tgt}", change]) if a]
    ops.append(f"addh name=drv prio=m params=R:G0:i;Snd:T0,InsK0,InsK1,InsK2,RemK0,RemK1,Despawn body={','.join(acts)}")
    # a second driver targets an entity it has just asked to be spawned: not alive when the event is sent, alive (and
    # possibly already moved to another archetype) when it is delivered
    extra = r.choice(["spawn,sendto:T0:last", "spawn,sendto:T0:last,ins:last:K0:3,sendto:T0:last", "spawn,ins:last:K1:4,sendto:T0:last"])
    ops.append(f"addh name=drv2 prio=m params=R:G1:i;Snd:Spawn,T0,InsK0,InsK1 body={extra}")
    # entities #0..#7: a random choice of component sets, inserted in random order, so that some archetypes only come
    # into existence later (through a removal, or when the driver's change is applied)
    masks = [r.randrange(8) for _ in range(8)] if r.random() < 0.6 else list(range(8))
    for mask in masks:
        ops.append("spawn")
        e = ctx.nspawn
        ctx.nspawn += 1
        ks = [k for k in range(3) if mask >> k & 1]
        r.shuffle(ks)
        for k in ks:
            ops.append(f"insert #{e} K{k} {10 * e + k}")
    if r.random() < 0.5:
        i = 90
        q = r.choice(fam)
        ops.append(f"addh name=r{i} prio={r.choice('hml')} params=R:T0:i:{q} body=recv")
    ops.append("send G0")
    ops.append("send G1")
    for e in range(8):
        ops.append(f"sendto T0 #{e}")
    for _ in range(r.randint(0, 4)):
        e = r.randrange(8)
        ops.append(f"remove #{e} K{r.randrange(3)}" if r.random() < 0.7 else f"insert #{e} K{r.randrange(3)} 5")
        ops.append(f"sendto T0 #{e}")
    ops.append(f"despawn #{tgt}")
    ops.append(f"sendto T0 #{tgt}")
    ops.append("spawn")
    ops.append(f"sendto T0 #8")
    ops.append("drop")
    return ops


def priorities(seed):
    """C07/C15: handlers of every priority added and removed in every order on one global and one targeted event, with
    the target's archetype created before, between or after the handlers; a delivery after every few changes."""
    r = random.Random(seed)
    ctx = Ctx(r, (0, 1))
    ops = []
    timing = r.randrange(3)
    def make_target():
        ops.append("spawn")
        ctx.nspawn += 1
        if r.random() < 0.7:
            ops.append(f"insert #{ctx.nspawn - 1} K0 1")
    if timing == 0:
        make_target()
    live = []
    n = 0
    for step in range(r.randint(4, 12)):
        if live and r.random() < 0.35:
            name = r.choice(live)
            live.remove(name)
            ops.append(f"rmh {name}")
        else:
            name = f"p{n}"
            n += 1
            live.append(name)
            ev = r.choice(["G0", "T0", "T0"])
            prio = r.choice("hml")
            taker = r.random() < 0.08
            recv = f"R:{ev}:{'m' if taker else 'i'}" + (":" + r.choice(["()", "E", "?r0"]) if ev == "T0" else "")
            ops.append(f"addh name={name} prio={prio} params={recv} body={'take' if taker else ''}")
        if r.random() < 0.12:
            # ordinary function handlers through the wrapper glue; re-adding a function returns the existing handler
            ops.append(f"addfn {r.choice(['fn0', 'fn1', 'fn2', 'fn3', 'fn4', 'fn5'])} {r.choice(['plain', 'high', 'low', 'notid'])}")
        if r.random() < 0.05:
            ops.append(f"rmh {r.choice(['fn0', 'fn1', 'fn2', 'fn3', 'fn4', 'fn5'])}")
        if r.random() < 0.15:
            ops.append("send G1")
        if timing == 1 and step == 2:
            make_target()
        if r.random() < 0.5 and ctx.nspawn:
            ops.append("send G0")
            ops.append(f"sendto T0 #{r.randrange(ctx.nspawn)}")
    if timing == 2 or ctx.nspawn == 0:
        make_target()
    if r.random() < 0.5:
        ops.append(f"insert #{ctx.nspawn - 1} K1 2")      # a new archetype registers every handler in insertion order
    ops.append("send G0")
    for e in range(ctx.nspawn):
        ops.append(f"sendto T0 #{e}")
    ops.append("drop")
    return ops


def cascade(seed):
    """C14/C15/C16: component / event / handler removal cascades on archetype graphs built in random insertion orders."""
    r = random.Random(seed)
    comps = (0, 1, 2, 3)
    ctx = Ctx(r, comps)
    ops = []
    # in two histories out of five, everything that can run DURING a component removal only observes, so that the
    # cascade oracle (vt/judge.py) can predict the deliveries exactly
    observers = r.random() < 0.4
    # ... and in half of those the announcement's receivers may still act (strip the component, add it, despawn):
    # the announcement phase is deterministic, so the outcome stays order-independent (judge.rmc_projection)
    acting_announcement = observers and r.random() < 0.5
    CASC = ("Despawn", "RemH", "RemT") if acting_announcement else ("RemC", "Despawn", "RemH", "RemT")
    for i in range(r.randint(2, 7)):
        recv = r.choice(USER_G + ["T0", "Despawn", "Despawn", "RemC", "RemH", "RemT", "AddC", "AddH", "InsK0", "RemK1", "Spawn"])
        if observers and r.random() < 0.5:
            recv = r.choice(["Despawn", "Despawn", "RemC", "RemH"])
        if acting_announcement and recv == "RemC":
            ks = r.sample(list(comps), 2)
            ops.append(rand_handler(ctx, recv=recv, allow_panic=0, take_p=0, nfetch=0, body_len=(2, 4),
                                    sends=[f"RemK{ks[0]}", f"InsK{ks[1]}"] + (["Despawn"] if r.random() < 0.3 else [])))
            continue
        ops.append(rand_handler(ctx, recv=recv, allow_panic=0, take_p=0.3 if recv == "Despawn" else 0.1,
                                tid=(r.randrange(3) if r.random() < 0.25 else None),
                                observer=observers and recv in CASC))
    n = r.randint(3, 8)
    for _ in range(n):
        ops.append("spawn")
        e = ctx.nspawn
        ctx.nspawn += 1
        ks = r.sample(list(comps), r.randint(0, 3))
        for k in ks:
            ops.append(f"insert #{e} K{k} {r.randrange(100)}")
    for _ in range(r.randint(4, 14)):
        x = r.random()
        if x < 0.3:
            ops.append(f"rmc {ctx.k()}")
        elif x < 0.4 and ctx.names:
            ops.append(f"rmh {r.choice(ctx.names)}")
        elif x < 0.5:
            ops.append(f"rmev {r.choice(USER_G + USER_T + ['Despawn', 'InsK0', 'RemK1', 'Spawn'])}")
        elif x < 0.55:
            ops.append(f"addfn {r.choice(['fn0', 'fn1', 'fn2', 'fn3', 'fn4', 'fn5'])} {r.choice(['plain', 'high', 'low', 'notid'])}")
        elif x < 0.6:
            recv = r.choice(CASC) if observers else None
            ops.append(rand_handler(ctx, recv=recv, allow_panic=0, tid=(r.randrange(3) if r.random() < 0.3 else None),
                                    observer=observers))
        elif x < 0.7:
            ops.append(f"addc {ctx.k()}")
        elif x < 0.75:
            ops.append(f"addev {r.choice(USER_G + USER_T)}")
        elif x < 0.9:
            ops.append(structural_op(ctx))
        else:
            ops.append(send_op(ctx))
    # continuation: use every component on some entity again and deliver to every archetype
    for k in comps:
        ops.append(f"insert {ctx.ent(0)} K{k} 1")
    ops.append("send G0")
    for e in range(min(ctx.nspawn, 6)):
        ops.append(f"sendto T0 #{e}")
    ops.append("drop")
    return ops


def spawns(seed):
    """C03: interleavings of world- and handler-level spawns with despawns, consumed Despawn + rmc, near-wrap slots.
    Spawn receivers insert a component on the entity they are told about, so an id that is not alive when its own Spawn
    event is delivered shows up in the store."""
    r = random.Random(seed)
    ctx = Ctx(r, (0, 1))
    ops = []
    for _ in range(r.randint(0, 2)):
        ops.append("spawn")
        ctx.nspawn += 1
    for i in range(r.randint(2, 5)):
        recv = r.choice(["G0", "G1", "G0", "T0", "Despawn", "Spawn", "Spawn", "Despawn"])
        name = f"h{i}"
        ctx.names.append(name)
        targeted = is_targeted(recv)
        mutable = recv != "Spawn" and r.random() < 0.4
        params = [f"R:{recv}:{'m' if mutable else 'i'}" + (":E" if targeted else "")]
        sends = ["Spawn", "Despawn", "G1", "T0", "InsK0", "G0"]
        params.append("Snd:" + ",".join(sends))
        if r.random() < 0.3:
            params.append("Ent")
        body = []
        for _ in range(r.randint(1, 4)):
            x = r.random()
            tg = r.choice(["ev", "last", ctx.ent(3), "self" if targeted else "last"])
            if x < 0.35:
                body.append("spawn")
            elif x < 0.5:
                body.append(f"despawn:{tg}")
            elif x < 0.65:
                body.append(r.choice(["send:G1", "send:G0"]))
            elif x < 0.72:
                body.append(f"sendto:T0:{tg}")
            elif x < 0.9:
                body.append(f"ins:{'ev' if recv == 'Spawn' else tg}:K0:{r.randrange(50)}")
            elif mutable:
                body.append("take")
            else:
                body.append("ents")
        ops.append(f"addh name={name} prio={r.choice('hmml')} params={';'.join(params)} body={','.join(body)}")
    for _ in range(r.randint(10, 40)):
        x = r.random()
        if x < 0.35:
            ops.append("spawn")
            ctx.nspawn += 1
        elif x < 0.6:
            ops.append(f"despawn {ctx.ent(4)}")
        elif x < 0.7:
            ops.append(f"insert {ctx.ent(4)} {ctx.k()} 1")
        elif x < 0.75:
            ops.append(f"rmc {ctx.k()}")
        elif x < 0.82 and ctx.nspawn:
            ops.append(f"setgen {ctx.ent(0)} {4294967295 - 2 * r.randrange(3)}")
        else:
            ops.append(send_op(ctx))
    ops.append("drop")
    return ops


def arena(seed):
    """C20: arena-borrowed payloads forwarded through several handlers with unrelated deliveries in between."""
    r = random.Random(seed)
    ctx = Ctx(r, (0,))
    ops = ["spawn"]
    ctx.nspawn = 1
    sizes = [0, 1, 7, 17, 33, 64, 255, 1024, 1025, 4096, 65536, 65537]   # odd sizes go through alloc_str
    if seed % 4 == 0:
        # every fourth history works with allocations of megabytes (several bumpalo chunks, anything keyed to the arena's
        # size): the round-6 change C20_V_1 resets the arena early once it holds more than 1 MiB
        sizes = [0, 33, 65537, (1 << 20) + 1, (1 << 20) + 4096, 2 << 20]
    ops.append(f"addh name=src prio=m params=R:G0:i;Snd:G3,G1 body=alloc:{r.choice(sizes)},send:G1,alloc:{r.choice(sizes)}")
    ops.append(f"addh name=noise prio=m params=R:G1:i;Snd:G3,G2 body=alloc:{r.choice(sizes)},send:G2")
    for i in range(r.randint(1, 4)):
        body = r.choice(["fwd", "fwd,fwd", "alloc:33,fwd", "fwd,send:G1", ""])
        ops.append(f"addh name=f{i} prio={r.choice('hml')} params=R:G3:{r.choice('iim')};Snd:G3,G1 body={body}")
    for _ in range(r.randint(1, 4)):
        ops.append("send G0")
    ops.append("send G3")
    ops.append("drop")
    return ops


def lifecycle(seed):
    """Handlers that react to the registration events themselves (AddHandler, RemoveHandler, AddComponent, ...) by
    changing the world - creating archetypes, moving entities - WHILE another handler is being added or removed; then
    targeted and global events are delivered to every archetype. Reaches the windows inside add_handler / remove_handler
    (the new handler half registered, the old one half removed)."""
    r = random.Random(seed)
    comps = (0, 1, 2, 3)
    ctx = Ctx(r, comps)
    ops = []
    n = r.randint(2, 5)
    for e in range(n):
        ops.append("spawn")
        ctx.nspawn += 1
        for k in r.sample(list(comps), r.randint(0, 2)):
            ops.append(f"insert #{e} K{k} {r.randrange(100)}")
    # reactors: on AddH / RemH / AddC / RemC / AddT they insert or remove a component on a fixed entity (often making an
    # archetype that did not exist), sometimes send a targeted event right there
    for i in range(r.randint(1, 3)):
        recv = r.choice(["AddH", "AddH", "RemH", "RemH", "AddC", "RemC", "AddT", "AddG"])
        k1, k2 = r.sample(list(comps), 2)
        sends = [f"InsK{k1}", f"RemK{k2}"] + (["T0"] if r.random() < 0.5 else []) + (["Spawn"] if r.random() < 0.2 else [])
        name = f"h{ctx.hcount}"
        ctx.hcount += 1
        ctx.names.append(name)
        body = []
        for _ in range(r.randint(1, 3)):
            x = r.random()
            e = f"#{r.randrange(n)}"
            if x < 0.5:
                body.append(f"ins:{e}:K{k1}:{r.randrange(100)}")
            elif x < 0.8:
                body.append(f"rem:{e}:K{k2}")
            elif "T0" in sends:
                body.append(f"sendto:T0:{e}")
            elif "Spawn" in sends:
                body.append("spawn")
        ops.append(f"addh name={name} prio={r.choice('hml')} params=R:{recv}:i;Snd:{','.join(sends)} body={','.join(body)}")
    # the handlers whose registration windows are exercised: targeted receivers, fetchers, Singles
    for _ in range(r.randint(3, 9)):
        x = r.random()
        if x < 0.45:
            recv = r.choice(["T0", "T0", "T1", "Despawn", f"InsK{r.choice(comps)}", f"RemK{r.choice(comps)}"])
            ops.append(rand_handler(ctx, recv=recv, allow_panic=0, sender_p=0.2, take_p=0.05,
                                    tid=(r.randrange(3) if r.random() < 0.2 else None)))
        elif x < 0.6:
            ops.append(rand_handler(ctx, recv=r.choice(USER_G), allow_panic=0, sender_p=0.2, nfetch=r.choice([1, 2])))
        elif x < 0.8 and ctx.names:
            ops.append(f"rmh {r.choice(ctx.names)}")
        elif x < 0.85:
            ops.append(f"addc {ctx.k()}")
        elif x < 0.9:
            ops.append(f"addev {r.choice(USER_G + USER_T)}")
        else:
            ops.append(structural_op(ctx))
        # deliveries to every entity after each change
        if r.random() < 0.6:
            for e in range(min(ctx.nspawn, 5)):
                ops.append(f"sendto T0 #{e}")
            if r.random() < 0.4:
                ops.append(f"send {r.choice(USER_G)}")
    for e in range(min(ctx.nspawn, 5)):
        ops.append(f"sendto T0 #{e}")
    ops.append("send G0")
    ops.append("drop")
    return ops


def wide(seed, bases=("general", "cascade", "lifecycle", "graphs", "priorities", "targeted", "accept")):
    """Index inflation: run-time registered components / events without a Rust type (`add_*_with_descriptor`; `K<n>`, n >= 6,
    `G<n>`, n >= 4, `T<n>`, n >= 3) fill the registries first, so that the typed items of an ordinary history get indices on both
    sides of the 64-bit block boundaries of the bit sets (sent events, referenced components) and deep into the sparse
    index tables; some fillers are removed again, so that low slots are reused with a bumped generation next to high ones."""
    r = random.Random(seed ^ 0x5EED)
    base = PROFILES[r.choice(list(bases))]
    body = base(seed) if base is not general else general(seed, comps=(0, 1, 2, 3, 4, 5))
    ops = []
    nk = r.choice([0, r.randint(55, 66), r.randint(55, 66), r.randint(120, 130)])
    ng = r.choice([0, r.randint(48, 64), r.randint(48, 64), r.randint(110, 128)])
    nt = r.choice([0, r.randint(55, 66), r.randint(55, 66)])
    if nk == ng == nt == 0:
        nk = r.randint(58, 64)
    pads = [f"addc K{6 + i}" for i in range(nk)] + [f"addev G{4 + i}" for i in range(ng)] + [f"addev T{3 + i}" for i in range(nt)]
    if r.random() < 0.5:
        r.shuffle(pads)
    ops += pads
    # holes: removed fillers free low slots (index reuse with a new generation by whatever is registered next)
    for _ in range(r.randint(0, 4)):
        x = r.random()
        if x < 0.4 and nk:
            ops.append(f"rmc K{6 + r.randrange(nk)}")
        elif x < 0.7 and ng:
            ops.append(f"rmev G{4 + r.randrange(ng)}")
        elif nt:
            ops.append(f"rmev T{3 + r.randrange(nt)}")
    # fillers coming and going in the middle of the history as well
    out = []
    for op in body:
        if op != "drop" and r.random() < 0.04:
            x = r.random()
            if x < 0.3 and nk:
                out.append(f"{r.choice(['rmc', 'addc'])} K{6 + r.randrange(nk)}")
            elif x < 0.6 and ng:
                out.append(f"{r.choice(['rmev', 'addev'])} G{4 + r.randrange(ng)}")
            elif nt:
                out.append(f"{r.choice(['rmev', 'addev'])} T{3 + r.randrange(nt)}")
        out.append(op)
    return ops + out


def firstuse(seed):
    """C11/C13/C16: the FIRST use of an event or component type from a world-level call (World::send / send_to / insert /
    remove of a type nobody registered yet) while handlers watch the registration notifications (AddGlobalEvent,
    AddTargetedEvent, AddComponent, AddHandler ...) and panic, take or react.  The value handed to the call by value exists
    before the registration it triggers: a panic raised in a notification handler must still destroy it exactly once, the type
    must be registered once, and the second use must not announce it again.  (Round-7 change C13_W_1 moved the event into the
    arena before `add_global_event`; no generated history had a watcher of a registration event that panics.)"""
    r = random.Random(seed)
    ctx = Ctx(r, (0, 1, 3))
    ops = []
    ne = r.randint(1, 3)
    for _ in range(ne):
        ops.append("spawn")
        ctx.nspawn += 1
    watch = ["AddG", "AddT", "AddC", "AddH", "AddG", "AddT"]
    for i in range(r.randint(1, 4)):
        recv = r.choice(watch)
        x = r.random()
        # the sender set registers what it names, so it names only what the body needs (first uses stay first uses)
        if x < 0.45:
            body, snd = "panic", ""
        elif x < 0.6:
            body, snd = "", ""
        elif x < 0.8:
            k = r.choice([0, 1, 3])
            body, snd = r.choice([("spawn", "Spawn"), (f"ins:#0:K{k}:{r.randrange(90)}", f"InsK{k}"),
                                  (f"despawn:#{r.randrange(ne)}", "Despawn")])
        else:
            body, snd = r.choice([("send:G0,panic", "G0"), ("spawn,panic", "Spawn"), ("send:G0", "G0")])
        ops.append(f"addh name=w{i} prio={r.choice('hml')} params=R:{recv}:i{';Snd:' + snd if snd else ''} body={body}")
    if r.random() < 0.5:
        # an ordinary receiver of a user event (its registration is announced too; it may be the one that panics later)
        ev = r.choice(USER_G)
        ops.append(f"addh name=u0 prio=m params=R:{ev}:{r.choice('im')} body={r.choice(['', 'take', 'panic'])}")
    uses = []
    for ev in USER_G:
        uses += [f"send {ev}"] * 2
    for ev in USER_T:
        uses += [f"sendto {ev} #{r.randrange(ne)}"] * 2
    for k in (0, 1, 3):
        uses += [f"insert #{r.randrange(ne)} K{k} {r.randrange(90)}", f"insert #{r.randrange(ne)} K{k} {r.randrange(90)}",
                 f"remove #{r.randrange(ne)} K{k}"]
    r.shuffle(uses)
    ops += uses[:r.randint(6, 14)]
    ops.append("drop")
    return ops


PROFILES = {
    "general": general,
    "storage": storage,
    "graphs": graphs,
    "accept": accept,
    "queries": queries,
    "targeted": targeted,
    "cascade": cascade,
    "lifecycle": lifecycle,
    "priorities": priorities,
    "spawns": spawns,
    "arena": arena,
    "firstuse": firstuse,
}
PROFILES["wide"] = wide

